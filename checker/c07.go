package main

// C07 — Predecessors is exact.
//
// R1 inverse-relation maintenance in graph.Memory (index-role, Remove, Predecessors)
// R2 every successful push is indexed; delete removes; load/GC re-index; IndexAll traverses
// R3 IsManifest media types == media types Successors decodes
// R4 lock discipline of graph.Memory

import (
	"fmt"
	"go/constant"
	"go/token"
	"go/types"
	"sort"
	"strings"

	"golang.org/x/tools/go/ssa"
)

func init() {
	register(&propDef{
		ID: "C07",
		Explain: "Decided: (R1) graph.Memory's index step stores nodes[key(node)]=node and a fresh successors[key(node)] set on every successful path and, in every iteration over the slice returned by content.Successors(node), " +
			"adds key(successor) to that set AND key(node) to predecessors[key(successor)] (creating and storing the set when absent); Remove, for every key in successors[key(node)], deletes key(node) from predecessors[that key], " +
			"drops the entry only on the len==0 edge, and finally deletes successors[key(node)] and nodes[key(node)]; Predecessors ranges over predecessors[key(node)] and appends nodes[k] for every k. " +
			"(R2) memory/oci/file Store.Push reach graph.Index(expected) on every path to a nil error (file store: the errSkipUnnamed discard path excepted) and return its error; oci.Store.delete calls graph.Remove(target); " +
			"loadIndex calls IndexAll for every entry of index.Manifests with the store's graph; gcIndex installs the graph it rebuilt; IndexAll's traversal indexes a node once, recurses into exactly the successors index returned and skips only ErrNotFound. " +
			"(R3) descriptor.IsManifest accepts exactly the media types content.Successors decodes. (R4) graph.Memory's maps are accessed under its lock in a sufficient mode. " +
			"NOT decided (not applicable to static analysis): exactness over all push orders and histories, reopen equivalence from fs.FS / tar archives, duplicates in the returned slice order.",
		Run:     runC07,
		Mutants: c07Mutants,
	})
}

const (
	c07GraphT  = "~/internal/graph.Memory"
	c07FromOCI = "~/internal/descriptor.FromOCI"
	c07Index   = "(*~/internal/graph.Memory).Index"
	c07IdxAll  = "(*~/internal/graph.Memory).IndexAll"
	c07Remove  = "(*~/internal/graph.Memory).Remove"
)

func runC07(c *Ctx) {
	c05SetRoles(c, "C07.anchors", "graph.lock", "graph.nodes", "graph.predecessors", "graph.successors", "oci.graph", "oci.sync")
	c07R1Index(c)
	c07R1Remove(c)
	c07R1Predecessors(c)
	c07R1Key(c)
	c07R1Forwarders(c)
	c07R1Writers(c)
	c07R2Push(c)
	c07R2Delete(c)
	c07R2Load(c)
	c07R2Open(c)
	c07R2GC(c)
	c07R2IndexWrapper(c)
	c07R2IndexAll(c)
	c07R2Algorithms(c)
	c07R3(c)
	c07R4(c)
}

// ---------- helpers ----------

// c07MapOf: v is a load of graph.Memory.<field>.
func c07MapOf(v ssa.Value, field string) bool {
	u, ok := v.(*ssa.UnOp)
	return ok && u.Op == token.MUL && c05Cur.F("graph."+field) != "" && c05IsFieldAddrOf(u.X, c07GraphT, c05Cur.F("graph."+field))
}

// c07IsKeyOf: v is descriptor.FromOCI(x) with x satisfying of (looking through single-assignment struct locals).
func c07IsKeyOf(v ssa.Value, of func(ssa.Value) bool) bool {
	rs := Roots(c05Unspill(v))
	if len(rs) == 0 {
		return false
	}
	for _, r := range rs {
		call, ok := strip(r).(*ssa.Call)
		if !ok || CalleeName(call) != c07FromOCI || len(call.Call.Args) != 1 || !of(call.Call.Args[0]) {
			return false
		}
	}
	return true
}

func c07IsParam(p *ssa.Parameter) func(ssa.Value) bool {
	return func(v ssa.Value) bool { return p != nil && c05ParamOf(v) == p }
}

// c07SetMethod: call is method `name` of container/set.Set (any instantiation).
func c07SetMethod(call ssa.CallInstruction, name string) bool {
	g := StaticCallee(call)
	if g == nil {
		return false
	}
	if o := g.Origin(); o != nil {
		g = o
	}
	return g.Name() == name && strings.HasSuffix(fnPkgPath(g), "/internal/container/set")
}

// c07IsSetNew: v is a freshly created empty set: set.New(), or make(set.Set[T] / map[T]struct{}, hint) — a capacity hint
// does not put anything into it.  Returned as the creating instruction.
func c07IsSetNew(v ssa.Value) ssa.Instruction {
	switch x := strip(v).(type) {
	case *ssa.Call:
		g := StaticCallee(x)
		if g == nil {
			return nil
		}
		if o := g.Origin(); o != nil {
			g = o
		}
		if g.Name() == "New" && strings.HasSuffix(fnPkgPath(g), "/internal/container/set") {
			return x
		}
	case *ssa.MakeMap:
		if c05IsSetType(x.Type()) {
			return x
		}
	}
	return nil
}

func c07DescParam(fn *ssa.Function) *ssa.Parameter {
	var p *ssa.Parameter
	for _, x := range fn.Params {
		if c05IsOCIDescriptor(x.Type()) {
			p = x
		}
	}
	return p
}

// everyIteration: every path from the loop body's entry back to the header executes `in`.
func c07EveryIteration(body Edge, header *ssa.BasicBlock, ins ...ssa.Instruction) bool {
	if len(ins) == 0 {
		return false
	}
	return !c07IterSkips(body, header, newCut().Instr(ins...))
}

// c07IterSkips: some feasible path from the loop body's entry reaches the next
// iteration without passing the cut (branches that contradict earlier tests of
// the same value on the path are not followed).
func c07IterSkips(body Edge, header *ssa.BasicBlock, ct *cut) bool {
	return c05ReachF(body.To, 0, body.From, header.Instrs[0], ct, c05EdgeFacts(body), nil)
}

// ---------------------------------------------------------------- R1: index

// c07MapOfE: v is a load of <root receiver>.<field> seen from node e (the
// helper's own receiver resolves to the root's receiver).
func c07MapOfE(v ssa.Value, field string, e *c05Env) bool {
	v, e = e.up(v)
	u, ok := v.(*ssa.UnOp)
	if !ok || u.Op != token.MUL || c05Cur.F("graph."+field) == "" || !c05IsFieldAddrOf(u.X, c07GraphT, c05Cur.F("graph."+field)) {
		return false
	}
	base := u.X.(*ssa.FieldAddr).X
	r := e.root()
	if len(r.Fn.Params) == 0 {
		return false
	}
	w, at := e.up(base)
	return at.isRoot() && w == ssa.Value(r.Fn.Params[0])
}

// c07KeyOfE: v (seen from e) is descriptor.FromOCI(x) with x satisfying of.
func c07KeyOfE(v ssa.Value, e *c05Env, of func(x ssa.Value, at *c05Env) bool) bool {
	w, at := e.up(v)
	rs := Roots(c05Unspill(w))
	if len(rs) == 0 {
		return false
	}
	for _, r := range rs {
		call, ok := strip(r).(*ssa.Call)
		if !ok || CalleeName(call) != c07FromOCI || len(call.Call.Args) != 1 {
			return false
		}
		x, xat := at.up(call.Call.Args[0])
		if !of(x, xat) {
			return false
		}
	}
	return true
}

func c07R1Index(c *Ctx) {
	const R = "C07.R1.inverse-relation"
	c.Expect(R, 20)
	var fns []*ssa.Function
	for _, f := range c05FuncsOfPkg(c.P, "internal/graph") {
		if f.Parent() == nil && len(CallsTo(f, "~/content.Successors")) > 0 {
			fns = append(fns, f)
		}
	}
	if len(fns) == 0 {
		c.LostAnchor(R, "function of ~/internal/graph that calls content.Successors (index role)")
		return
	}
	for _, fn := range fns {
		tn := FnName(fn)
		root := c05Root(fn)
		root.Wide = true
		node := c07DescParam(fn)
		sc := CallsTo(fn, "~/content.Successors")[0]
		S := ResultOf(sc, 0)
		okSrc := node != nil && S != nil && c05ParamOf(sc.Common().Args[len(sc.Common().Args)-1]) == node
		c.Check(R, tn+"|edges-come-from-successors-of-node", sc.Pos(), okSrc, "the indexed edges are content.Successors(ctx, fetcher, node) of the node being indexed")
		if !okSrc {
			continue
		}
		isNode := func(x ssa.Value, at *c05Env) bool { return at.isRoot() && c05ParamOf(x) == node }
		isNodeKey := func(v ssa.Value, e *c05Env) bool { return c07KeyOfE(v, e, isNode) }
		// nodes[key(node)] = node and successors[key(node)] = fresh set, on every successful path
		var succSets []ssa.Value
		var succSetFns []*ssa.Function
		nodeRec := c05PassSpec{Instr: func(in ssa.Instruction, e *c05Env) bool {
			mu, ok := in.(*ssa.MapUpdate)
			if !ok || !c07MapOfE(mu.Map, "nodes", e) || !isNodeKey(mu.Key, e) {
				return false
			}
			x, at := e.up(mu.Value)
			return isNode(x, at)
		}}
		succRec := c05PassSpec{Instr: func(in ssa.Instruction, e *c05Env) bool {
			mu, ok := in.(*ssa.MapUpdate)
			if !ok || !c07MapOfE(mu.Map, "successors", e) || !isNodeKey(mu.Key, e) {
				return false
			}
			x, xat := e.up(mu.Value)
			for _, r := range Roots(x) {
				if c07IsSetNew(r) == nil {
					return false
				}
			}
			succSets = append(succSets, x)
			succSetFns = append(succSetFns, xat.Fn)
			return true
		}}
		nodeCut, succCut := c05PassCut(root, nodeRec), c05PassCut(root, succRec)
		okN, okS := len(nodeCut.instrs) > 0, len(succCut.instrs) > 0
		for _, a := range c05MaybeNilAtoms(fn) {
			if okN && !c05AtomMustPass(a, nodeCut) {
				okN = false
			}
			if okS && !c05AtomMustPass(a, succCut) {
				okS = false
			}
		}
		c.Check(R, tn+"|node-recorded", fn.Pos(), okN,
			ifelse(okN, "nodes[key(node)] = node on every successful path", "a successful index does not record nodes[key(node)] = node: Predecessors of its successors would yield an empty descriptor for it"))
		c.Check(R, tn+"|fresh-successor-set-recorded", fn.Pos(), okS,
			ifelse(okS, "successors[key(node)] = set.New() on every successful path", "a successful index does not install a fresh successors[key(node)] set: Remove cannot undo the node's edges (extras after delete)"))
		// the traversal of S (any loop form, range-over-func included)
		var it *c05Iter
		nIt := 0
		// (in the index step itself or in a helper it hands the successors to: fetch + locked link)
		for _, e := range c05TreeEnvs(root, 2) {
			if e.Iter != nil || (e.Call == nil && !e.isRoot()) {
				continue // closures (iterator producers, loop bodies) are reached through the traversal that uses them
			}
			for _, x := range c05ItersIn(e) {
				nIt++
				if bs := x.Base(); bs != nil && bs.Kind == "slice" && it == nil {
					if w, wat := bs.CollAt.up(bs.Coll); wat.isRoot() && SameValue(w, S) {
						it = x
					}
				}
			}
		}
		if it == nil {
			if nIt == 0 {
				c.Violation(R, tn+"|loop-over-successors", fn.Pos(), "no loop over the successors: no edge is recorded")
			} else {
				c.Undecided(R, tn+"|loop-over-successors", fn.Pos(), "no loop of the index step visits every element of the successors slice (range / index / iterator forms are recognised)")
			}
			continue
		}
		okL := it.Exact()
		entryCut := c05PassCut(root, c05PassSpec{Instr: func(in ssa.Instruction, e *c05Env) bool { return in == it.Entry() && e.Fn == it.In.Fn }})
		for _, a := range c05MaybeNilAtoms(fn) {
			if !c05AtomMustPass(a, entryCut) {
				okL = false
			}
		}
		c.Check(R, tn+"|loop-over-successors", it.Entry().Pos(), okL, "every successful path runs the loop over all successors")
		isElem := func(x ssa.Value, at *c05Env) bool { return it.IsElem(x, at, "val") }
		isSuccKey := func(v ssa.Value, e *c05Env) bool { return c07KeyOfE(v, e, isElem) }
		// where must a freshly created predecessor set be stored by: the end of the iteration / of the helper
		iterEnds := func(e *c05Env) []ssa.Instruction {
			if it.Loop != nil && e.Fn == it.In.Fn {
				return []ssa.Instruction{it.Loop.Header.Instrs[0]}
			}
			var out []ssa.Instruction
			for _, r := range Returns(e.Fn) {
				out = append(out, r)
			}
			return out
		}
		addS := c05PassSpec{Instr: func(in ssa.Instruction, e *c05Env) bool {
			call, ok := in.(*ssa.Call)
			if !ok || !c07SetMethod(call, "Add") || !isSuccKey(call.Call.Args[1], e) {
				return false
			}
			recv, at := e.up(call.Call.Args[0])
			for i, ss := range succSets {
				if at.Fn == succSetFns[i] && SameValue(recv, ss) {
					return true
				}
			}
			return false
		}}
		// the stored predecessors[key(successor)] set: the looked-up entry, or a fresh set stored under that key
		// before the iteration (the helper) ends; also as the result of a get-or-create helper
		var storedSet func(v ssa.Value, e *c05Env, d int) bool
		storedSet = func(v ssa.Value, e *c05Env, d int) bool {
			v, e = e.up(v)
			rs := Roots(v)
			for _, r := range rs {
				r = strip(r)
				if ex, isE := r.(*ssa.Extract); isE {
					r = ex.Tuple
				}
				if lk, isL := r.(*ssa.Lookup); isL && c07MapOfE(lk.X, "predecessors", e) && isSuccKey(lk.Index, e) {
					continue
				}
				if n := c07IsSetNew(r); n != nil {
					stored := false
					AllInstrs(e.Fn, func(in2 ssa.Instruction) {
						// the fresh set is stored under key(successor) before the iteration ends (order w.r.t. Add is irrelevant: sets are references)
						mu, ok := in2.(*ssa.MapUpdate)
						if !ok || !c07MapOfE(mu.Map, "predecessors", e) || !isSuccKey(mu.Key, e) || !SameValue(mu.Value, n.(ssa.Value)) {
							return
						}
						all := true
						for _, end := range iterEnds(e) {
							if reach(n.Block(), instrIndex(n)+1, end, newCut().Instr(mu)) {
								all = false
							}
						}
						if all {
							stored = true
						}
					})
					if stored {
						continue
					}
				}
				if call, isC := r.(*ssa.Call); isC && d < 2 {
					if h := e.helper(call); h != nil && h.Signature.Results().Len() == 1 {
						ch := &c05Env{Fn: h, Call: call, Parent: e}
						good, nr := true, 0
						for _, ret := range Returns(h) {
							if ReachableFromEntry(ret) {
								nr++
								if !storedSet(ret.Results[0], ch, d+1) {
									good = false
								}
							}
						}
						if good && nr > 0 {
							continue
						}
					}
				}
				return false
			}
			return len(rs) > 0
		}
		addP := c05PassSpec{Instr: func(in ssa.Instruction, e *c05Env) bool {
			call, ok := in.(*ssa.Call)
			return ok && c07SetMethod(call, "Add") && isNodeKey(call.Call.Args[1], e) && storedSet(call.Call.Args[0], e, 0)
		}}
		okA := !it.Skips(addS)
		c.Check(R, tn+"|successor-edge-every-iteration", it.Entry().Pos(), okA,
			ifelse(okA, "successors[key(node)].Add(key(successor)) runs in every iteration", "an iteration can finish without recording key(successor) in successors[key(node)]: Remove would leave node in that successor's predecessor set (extra after delete)"))
		okB := !it.Skips(addP)
		c.Check(R, tn+"|predecessor-edge-every-iteration", it.Entry().Pos(), okB,
			ifelse(okB, "predecessors[key(successor)].Add(key(node)) runs in every iteration on the stored set (created and stored when absent)", "an iteration can finish without adding key(node) to the stored predecessors[key(successor)] set: Predecessors(successor) omits node"))
	}
}

// ---------------------------------------------------------------- R1: Remove

func c07R1Remove(c *Ctx) {
	const R = "C07.R1.inverse-relation"
	fn := c.P.Fn("internal/graph", "Memory.Remove")
	if fn == nil || len(fn.Blocks) == 0 {
		c.LostAnchor(R, c07Remove)
		return
	}
	tn := FnName(fn)
	root := c05Root(fn)
	root.Wide = true
	node := c07DescParam(fn)
	isNode := func(x ssa.Value, at *c05Env) bool { return at.isRoot() && c05ParamOf(x) == node }
	isNodeKey := func(v ssa.Value, e *c05Env) bool { return c07KeyOfE(v, e, isNode) }
	// the traversal of successors[key(node)] (map range, or range-over-func over its keys)
	var it *c05Iter
	for _, x := range c05ItersIn(root) {
		bs := x.Base()
		if bs == nil || bs.Kind != "map" {
			continue
		}
		coll, cat := bs.CollAt.up(bs.Coll)
		rs := Roots(coll)
		good := len(rs) > 0
		for _, r := range rs {
			r = strip(r)
			if e, isE := r.(*ssa.Extract); isE {
				r = e.Tuple
			}
			lk, isL := r.(*ssa.Lookup)
			if !isL || !c07MapOfE(lk.X, "successors", cat) || !isNodeKey(lk.Index, cat) {
				good = false
			}
		}
		if good && x.Exact() {
			it = x
		}
	}
	if it == nil {
		c.Violation(R, tn+"|loop-over-own-successors", fn.Pos(), "Remove does not range over successors[key(node)]: the node stays in its successors' predecessor sets (extras after delete)")
		return
	}
	c.OK(R, tn+"|loop-over-own-successors", it.Entry().Pos(), "Remove ranges over successors[key(node)]")
	isKey := func(v ssa.Value, e *c05Env) bool { return it.IsElem(v, e, "key") }
	isEntry := func(v ssa.Value, e *c05Env) bool {
		v, e = e.up(v)
		rs := Roots(v)
		if len(rs) == 0 {
			return false
		}
		for _, r := range rs {
			r = strip(r)
			if ex, isE := r.(*ssa.Extract); isE {
				r = ex.Tuple
			}
			lk, isL := r.(*ssa.Lookup)
			if !isL || !c07MapOfE(lk.X, "predecessors", e) || !isKey(lk.Index, e) {
				return false
			}
		}
		return true
	}
	isUnlink := func(in ssa.Instruction, e *c05Env) bool {
		call, ok := in.(*ssa.Call)
		return ok && c07SetMethod(call, "Delete") && isEntry(call.Call.Args[0], e) && isNodeKey(call.Call.Args[1], e)
	}
	unlink := c05PassSpec{Instr: isUnlink,
		// an absent / nil entry has nothing to unlink
		Edges: func(e *c05Env) []Edge {
			var out []Edge
			AllInstrs(e.Fn, func(in ssa.Instruction) {
				if !isUnlink(in, e) {
					return
				}
				entry := in.(*ssa.Call).Call.Args[0]
				ne, _, _ := NilTests(e.Fn, Aliases(entry))
				out = append(out, ne...)
				if ex, isE := strip(entry).(*ssa.Extract); isE {
					for _, r := range *ex.Tuple.Referrers() {
						if e1, is1 := r.(*ssa.Extract); is1 && e1.Index == 1 {
							_, fe := BoolTests(e.Fn, Aliases(e1))
							out = append(out, fe...)
						}
					}
				}
			})
			return out
		}}
	okD := !it.Skips(unlink)
	c.Check(R, tn+"|unlink-every-iteration", it.Entry().Pos(), okD,
		ifelse(okD, "predecessors[successorKey].Delete(key(node)) runs in every iteration", "an iteration can finish without deleting key(node) from predecessors[successorKey]: Predecessors(successor) keeps reporting the removed node"))
	// delete(m.predecessors, k): only the current key, only when its set is empty — in Remove or in a helper it calls
	nDel := 0
	for _, e := range c05TreeEnvs(root, 3) {
		for _, call := range CallsTo(e.Fn, "builtin:delete") {
			a := call.Common().Args
			if !c07MapOfE(a[0], "predecessors", e) {
				continue
			}
			nDel++
			var zero []Edge
			AllInstrs(e.Fn, func(in ssa.Instruction) {
				if isUnlink(in, e) {
					zero = append(zero, lenZeroEdges(e.Fn, in.(*ssa.Call).Call.Args[0])...)
				}
			})
			ok := isKey(a[1], e) && len(zero) > 0
			if ok {
				if it.Loop != nil && e.Fn == it.In.Fn {
					ok = it.Loop.Contains(call.(ssa.Instruction)) && !reach(it.Body.To, 0, call.(ssa.Instruction), newCut().Edges(zero...))
				} else {
					ok = it.Contains(call.(ssa.Instruction), e) && MustPass(call.(ssa.Instruction), newCut().Edges(zero...))
				}
			}
			c.Check(R, tn+"|entry-dropped-only-when-empty", call.Pos(), ok,
				ifelse(ok, "delete(predecessors, successorKey) lies behind len(entry)==0 of the same entry", "a predecessors entry is dropped although other predecessors may remain (omissions) or for a different key"))
		}
	}
	if nDel == 0 {
		c.OK(R, tn+"|entry-dropped-only-when-empty", fn.Pos(), "Remove never drops predecessors entries")
	}
	// finally successors[key(node)] and nodes[key(node)] are deleted
	for _, fld := range []string{"successors", "nodes"} {
		fld := fld
		ct := c05PassCut(root, c05PassSpec{Instr: func(in ssa.Instruction, e *c05Env) bool {
			call, ok := in.(*ssa.Call)
			if !ok || CalleeName(call) != "builtin:delete" {
				return false
			}
			return c07MapOfE(call.Call.Args[0], fld, e) && isNodeKey(call.Call.Args[1], e) && !it.Contains(in, e)
		}})
		ok := len(ct.instrs) > 0
		for _, r := range Returns(fn) {
			if ok && ReachableFromEntry(r) && !MustPass(r, ct) {
				ok = false
			}
		}
		c.Check(R, tn+"|own-"+fld+"-entry-deleted", fn.Pos(), ok,
			ifelse(ok, "delete("+fld+", key(node)) on every path", "Remove leaves "+fld+"[key(node)] behind: the removed node still counts as stored (a later Remove/dangling computation or Predecessors mapping sees stale data)"))
	}
}

// ---------------------------------------------------------------- R1: Predecessors

func c07R1Predecessors(c *Ctx) {
	const R = "C07.R1.inverse-relation"
	fn := c.P.Fn("internal/graph", "Memory.Predecessors")
	if fn == nil || len(fn.Blocks) == 0 {
		c.LostAnchor(R, "(*~/internal/graph.Memory).Predecessors")
		return
	}
	tn := FnName(fn)
	root := c05Root(fn)
	root.Wide = true
	node := c07DescParam(fn)
	isNode := func(x ssa.Value, at *c05Env) bool { return at.isRoot() && c05ParamOf(x) == node }
	isNodeKey := func(v ssa.Value, e *c05Env) bool { return c07KeyOfE(v, e, isNode) }
	// v (seen from e) is predecessors[key(node)]
	isPredSet := func(v ssa.Value, e *c05Env) bool {
		v, e = e.up(v)
		rs := Roots(v)
		for _, r := range rs {
			r = strip(r)
			if ex, isE := r.(*ssa.Extract); isE {
				r = ex.Tuple
			}
			lk, isL := r.(*ssa.Lookup)
			if !isL || !c07MapOfE(lk.X, "predecessors", e) || !isNodeKey(lk.Index, e) {
				return false
			}
		}
		return len(rs) > 0
	}
	overPredSet := func(it *c05Iter) bool {
		bs := it.Base()
		return bs != nil && bs.Kind == "map" && isPredSet(bs.Coll, bs.CollAt)
	}
	// x (seen from e) is nodes[k] for the current key k of it; miss collects the "k not in nodes" edges of a comma-ok lookup
	isNodeOf := func(x ssa.Value, e *c05Env, it *c05Iter, miss *cut) bool {
		x, e = e.up(x)
		x = strip(x)
		if ex, isE := x.(*ssa.Extract); isE && ex.Index == 0 {
			if lk, isL := ex.Tuple.(*ssa.Lookup); isL {
				for _, r := range *lk.Referrers() {
					if e1, is1 := r.(*ssa.Extract); is1 && e1.Index == 1 {
						_, fe := BoolTests(e.Fn, Aliases(e1))
						miss.Edges(fe...)
					}
				}
				x = lk
			}
		}
		lk, ok := x.(*ssa.Lookup)
		return ok && c07MapOfE(lk.X, "nodes", e) && it.IsElem(lk.Index, e, "key")
	}
	// The result, in any of the forms: nil; the slice appended to in a loop over the set; slices.Collect /
	// AppendSeq / Sorted of an iterator that yields nodes[k] for every key k of the set; a helper returning such.
	found, okElems, okRes := false, true, true
	var where token.Pos
	tops := newCut() // instructions of Predecessors itself that run the traversal
	var resolve func(v ssa.Value, e *c05Env, top ssa.Instruction, d int)
	resolve = func(v ssa.Value, e *c05Env, top ssa.Instruction, d int) {
		v, e2 := e.up(v)
		if e2 != e {
			// the value comes from further up the chain: its "top" instruction is unknown unless it is the root
			if !e2.isRoot() {
				okRes = false
				return
			}
			top = nil
		}
		e = e2
		for _, r := range Roots(v) {
			r = strip(r)
			if k, isK := r.(*ssa.Const); isK && k.Value == nil {
				continue
			}
			if mk, isMk := r.(*ssa.MakeSlice); isMk {
				// the preallocated, still empty accumulator (the loop ran zero times)
				if n, isN := constInt(mk.Len); isN && n == 0 {
					continue
				}
			}
			// `for k := range <iterator over the set> { res = append(res, m.nodes[k]) }`: the accumulator is a
			// variable captured by the loop body (a synthetic closure); the function only ever stores nil into it
			if ld, isLd := r.(*ssa.UnOp); isLd && ld.Op == token.MUL {
				if cell, isA := ld.X.(*ssa.Alloc); isA {
					handled := false
					for _, x := range c05ItersIn(e) {
						if x.Y == nil || !overPredSet(x) {
							continue
						}
						mc, _ := x.Call.Common().Args[0].(*ssa.MakeClosure)
						var fv *ssa.FreeVar
						for i, b := range mc.Bindings {
							if b == ssa.Value(cell) {
								fv = x.Y.Fn.FreeVars[i]
							}
						}
						if fv == nil {
							continue
						}
						ct := newCut()
						n := 0
						for _, ref := range *fv.Referrers() {
							st, isSt := ref.(*ssa.Store)
							if !isSt || st.Addr != ssa.Value(fv) {
								continue
							}
							n++
							ap, isAp := strip(st.Val).(*ssa.Call)
							if !isAp || CalleeName(ap) != "builtin:append" {
								okRes = false
								continue
							}
							if l2, ok := ap.Call.Args[0].(*ssa.UnOp); !ok || l2.X != ssa.Value(fv) {
								okRes = false
							}
							el := c05VariadicElems(ap.Call.Args[1])
							if len(el) != 1 || !isNodeOf(el[0], x.Y, x, ct) {
								okElems = false
							}
							ct.Instr(st)
						}
						if n == 0 {
							continue
						}
						handled = true
						found, where = true, x.Entry().Pos()
						if e.isRoot() {
							tops.Instr(x.Entry())
						} else if top != nil {
							tops.Instr(top)
						}
						for _, st := range storesTo(cell) {
							if !isNilConst(st.Val) {
								okRes = false
							}
						}
						if !x.Exact() || x.SkipsCut(ct) {
							okElems = false
						}
					}
					if handled {
						continue
					}
				}
			}
			call, isCall := r.(*ssa.Call)
			if !isCall {
				okRes = false
				continue
			}
			topOf := func() ssa.Instruction {
				if top != nil {
					return top
				}
				return call
			}
			switch name := CalleeName(call); {
			case name == "builtin:append":
				var it *c05Iter
				for _, x := range c05ItersIn(e) {
					if x.Loop != nil && x.Loop.Contains(call) && overPredSet(x) {
						it = x
					}
				}
				if it == nil {
					okRes = false
					continue
				}
				found, where = true, it.Entry().Pos()
				if e.isRoot() {
					tops.Instr(it.Entry())
				} else {
					tops.Instr(topOf())
				}
				ct := newCut()
				for _, ap := range CallsTo(e.Fn, "builtin:append") {
					if !it.Loop.Contains(ap.(ssa.Instruction)) {
						continue
					}
					if ap != ssa.CallInstruction(call) && !SameValue(ap.Common().Args[0], call) && !func() bool {
						for _, r2 := range Roots(ap.Common().Args[0]) {
							if strip(r2) == ssa.Value(call) {
								return true
							}
						}
						for _, r2 := range Roots(call.Call.Args[0]) {
							if v2, ok := strip(r2).(*ssa.Call); ok && ssa.CallInstruction(v2) == ap {
								return true
							}
						}
						return false
					}() {
						continue
					}
					ct.Instr(ap.(ssa.Instruction))
					el := c05VariadicElems(ap.Common().Args[1])
					if len(el) != 1 || !isNodeOf(el[0], e, it, ct) {
						okElems = false
					}
				}
				if it.SkipsCut(ct) {
					okElems = false
				}
				// the accumulator starts empty
				for _, r2 := range Roots(call.Call.Args[0]) {
					r2 = strip(r2)
					if k, isK := r2.(*ssa.Const); isK && k.Value == nil {
						continue
					}
					if c2, isC := r2.(*ssa.Call); isC && it.Loop.Contains(c2) && CalleeName(c2) == "builtin:append" {
						continue
					}
					if mk, isMk := r2.(*ssa.MakeSlice); isMk {
						if n, isN := constInt(mk.Len); isN && n == 0 {
							continue
						}
					}
					okRes = false
				}
			case name == "slices.Collect" || name == "slices.AppendSeq" || name == "slices.Sorted" || name == "slices.SortedFunc" || name == "slices.SortedStableFunc":
				args := call.Call.Args
				si := 0
				if name == "slices.AppendSeq" {
					si = 1
					for _, r2 := range Roots(args[0]) {
						if k, isK := strip(r2).(*ssa.Const); !isK || k.Value != nil {
							okRes = false
						}
					}
				}
				seq := c05SeqOf(args[si], e)
				if seq == nil || seq.Site == nil || seq.Inner == nil || !overPredSet(seq.Inner) {
					okRes = false
					continue
				}
				found, where = true, call.Pos()
				tops.Instr(topOf())
				ct := newCut().Instr(seq.Site.(ssa.Instruction))
				ya := seq.Site.Common().Args
				if len(ya) != 1 || !isNodeOf(ya[0], seq.SiteAt, seq.Inner, ct) || !seq.Inner.Exact() || seq.Inner.SkipsCut(ct) {
					okElems = false
				}
			default:
				h := e.helper(call)
				if h == nil || d >= 2 || h.Signature.Results().Len() == 0 {
					okRes = false
					continue
				}
				ch := &c05Env{Fn: h, Call: call, Parent: e}
				for _, ret := range Returns(h) {
					if ReachableFromEntry(ret) {
						resolve(ret.Results[0], ch, topOf(), d+1)
					}
				}
			}
		}
	}
	for _, r := range Returns(fn) {
		if ReachableFromEntry(r) && len(r.Results) > 0 {
			resolve(r.Results[0], root, nil, 0)
		}
	}
	if !found {
		c.Violation(R, tn+"|ranges-over-own-predecessor-set", fn.Pos(), "Predecessors does not traverse predecessors[key(node)] (loop / iterator forms are recognised)")
		return
	}
	c.OK(R, tn+"|ranges-over-own-predecessor-set", where, "Predecessors traverses predecessors[key(node)]")
	c.Check(R, tn+"|one-result-per-predecessor", where, okElems,
		ifelse(okElems, "every iteration contributes exactly nodes[k] for the current predecessor key", "an iteration can skip a predecessor, contribute something other than nodes[k], or contribute more than one element (omission / extra / duplicate)"))
	c.Check(R, tn+"|returns-the-collected-slice", fn.Pos(), okRes, ifelse(okRes, "the result is nil or the slice collected from the traversal", "Predecessors returns something other than the collected slice"))
	// a result is produced without the traversal only when predecessors[key(node)] is absent
	// ... or is there but empty (nothing to collect): tests of the lookup's ok result and of len(entry), also combined with && / ||
	miss := tops
	absent := map[ssa.Value]bool{}
	var entries []ssa.Value
	AllInstrs(fn, func(in ssa.Instruction) {
		lk, isL := in.(*ssa.Lookup)
		if !isL || !c07MapOfE(lk.X, "predecessors", root) || !isNodeKey(lk.Index, root) {
			return
		}
		if !lk.CommaOk {
			entries = append(entries, lk)
			return
		}
		for _, r := range *lk.Referrers() {
			if e, isE := r.(*ssa.Extract); isE && e.Index == 1 {
				for a := range Aliases(e) {
					absent[a] = true
				}
			}
			if e, isE := r.(*ssa.Extract); isE && e.Index == 0 {
				entries = append(entries, e)
			}
		}
	})
	// missCond: condition v having the given truth value means "no entry, or an empty one"
	missCond := func(v ssa.Value, truth bool) bool {
		v, pol := c05StripNot(v)
		if !pol {
			truth = !truth
		}
		if absent[v] {
			return !truth
		}
		bo, ok := v.(*ssa.BinOp)
		if !ok {
			return false
		}
		x, y, op := bo.X, bo.Y, bo.Op
		isLen := func(w ssa.Value) bool {
			ln, ok := w.(*ssa.Call)
			if !ok || CalleeName(ln) != "builtin:len" {
				return false
			}
			for _, en := range entries {
				if SameValue(ln.Call.Args[0], en) {
					return true
				}
			}
			return false
		}
		if !isLen(x) && isLen(y) {
			x, y = y, x
			switch op {
			case token.LSS:
				op = token.GTR
			case token.GTR:
				op = token.LSS
			case token.LEQ:
				op = token.GEQ
			case token.GEQ:
				op = token.LEQ
			}
		}
		k, isK := constInt(y)
		if !isLen(x) || !isK {
			return false
		}
		switch {
		case op == token.EQL && k == 0, op == token.LEQ && k == 0, op == token.LSS && k == 1:
			return truth
		case op == token.NEQ && k == 0, op == token.GTR && k == 0, op == token.GEQ && k == 1:
			return !truth
		}
		return false
	}
	var missEdge func(b *ssa.BasicBlock, si int, d int) bool
	missEdge = func(b *ssa.BasicBlock, si int, d int) bool {
		if len(b.Instrs) == 0 || len(b.Succs) != 2 || b.Succs[0] == b.Succs[1] || d > 3 {
			return false
		}
		ifi, ok := b.Instrs[len(b.Instrs)-1].(*ssa.If)
		if !ok {
			return false
		}
		truth := si == 0
		cv, pol := c05StripNot(ifi.Cond)
		if !pol {
			truth = !truth
		}
		if missCond(cv, truth) {
			return true
		}
		// a short-circuit phi: every operand that lets this edge be taken must itself mean "absent or empty"
		phi, isPhi := cv.(*ssa.Phi)
		if !isPhi || phi.Block() != b {
			return false
		}
		for i, op := range phi.Edges {
			if kc, isK := op.(*ssa.Const); isK && kc.Value != nil {
				if (kc.Value.String() == "true") != truth {
					continue // this operand sends control the other way
				}
				p := b.Preds[i]
				good := false
				for k, sc := range p.Succs {
					if sc == b && missEdge(p, k, d+1) {
						good = true
					}
				}
				if !good {
					return false
				}
				continue
			}
			if !missCond(op, truth) {
				return false
			}
		}
		return true
	}
	for _, b := range fn.Blocks {
		for si := range b.Succs {
			if missEdge(b, si, 0) {
				miss.Edges(Edge{b, b.Succs[si]})
			}
		}
	}
	okMiss := true
	for _, r := range Returns(fn) {
		if ReachableFromEntry(r) && !MustPass(r, miss) {
			okMiss = false
		}
	}
	c.Check(R, tn+"|empty-only-when-no-predecessor-entry", fn.Pos(), okMiss,
		ifelse(okMiss, "every return either ran the traversal of predecessors[key(node)] or took the lookup's absent edge", "Predecessors can return without consulting predecessors[key(node)] (e.g. when the node itself is not stored): parents of an absent node are omitted"))
}

// c07R1Writers: who may change the three maps of graph.Memory.  The inverse relation is established by the index step and
// undone by Remove (and their helpers); every other function may only read.  A use is classified by effect: lookups,
// ranges, len and calls of functions that write no map are reads; map updates, delete/clear, replacing the map, adding to /
// deleting from a looked-up set, handing the map (or a looked-up set) to code that writes maps, or letting it escape are
// writes.  (A new bulk-copy / merge method that edits the edge sets is exactly what breaks exactness.)
func c07R1Writers(c *Ctx) {
	const R = "C07.R1.inverse-relation"
	allowed := map[*ssa.Function]bool{}
	var roots []*ssa.Function
	for _, f := range c05FuncsOfPkg(c.P, "internal/graph") {
		if f.Parent() == nil && len(CallsTo(f, "~/content.Successors")) > 0 {
			roots = append(roots, f)
		}
	}
	if rm := c.P.Fn("internal/graph", "Memory.Remove"); rm != nil && len(rm.Blocks) > 0 {
		roots = append(roots, rm)
	}
	for _, f := range roots {
		r := c05Root(f)
		r.Wide = true
		for _, e := range c05TreeEnvs(r, 3) {
			allowed[e.Fn] = true
		}
	}
	// writesNoMap: g (and what it calls in the module, two levels deep) never updates, deletes from or clears a map
	var writesNoMap func(g *ssa.Function, d int) bool
	writesNoMap = func(g *ssa.Function, d int) bool {
		if g == nil {
			return false
		}
		if !inModule(g) {
			p := fnPkgPath(g)
			return p == "maps" || p == "slices" || p == "sort" || g.Name() == "len"
		}
		if len(g.Blocks) == 0 {
			if o := g.Origin(); o != nil && o != g && len(o.Blocks) > 0 {
				g = o
			} else {
				return false
			}
		}
		ok := true
		for _, fn := range append([]*ssa.Function{g}, Anons(g)...) {
			AllInstrs(fn, func(in ssa.Instruction) {
				switch x := in.(type) {
				case *ssa.MapUpdate:
					ok = false
				case ssa.CallInstruction:
					switch n := CalleeName(x); {
					case n == "builtin:delete" || n == "builtin:clear":
						ok = false
					case strings.HasPrefix(n, "builtin:") || strings.HasPrefix(n, "dyn:"):
					default:
						h := StaticCallee(x)
						if h == nil {
							if x.Common().IsInvoke() {
								ok = false
							}
							return
						}
						if inModule(h) && (d >= 2 || !writesNoMap(h, d+1)) {
							ok = false
						}
					}
				}
			})
		}
		return ok
	}
	// readOnly: every use of value v (a map or a set taken out of it) is a read; isSetMap: lookups yield sets that must be read-only too
	var readOnly func(v ssa.Value, isSetMap bool, d int) string
	readOnly = func(v ssa.Value, isSetMap bool, d int) string {
		if d > 4 {
			return "used too indirectly to classify"
		}
		for _, r := range *v.Referrers() {
			switch u := r.(type) {
			case *ssa.DebugRef, *ssa.Range:
			case *ssa.Lookup:
				if u.X != v {
					continue // used as a key
				}
				if !isSetMap {
					continue
				}
				var setv ssa.Value = u
				if u.CommaOk {
					setv = nil
					for _, r2 := range *u.Referrers() {
						if ex, isE := r2.(*ssa.Extract); isE && ex.Index == 0 {
							setv = ex
						}
					}
				}
				if setv != nil {
					if why := readOnly(setv, false, d+1); why != "" {
						return "a set looked up in it is " + why
					}
				}
			case *ssa.MapUpdate:
				if u.Map == v {
					return "updated"
				}
			case *ssa.Phi, *ssa.ChangeType, *ssa.MakeInterface:
				if why := readOnly(u.(ssa.Value), isSetMap, d+1); why != "" {
					return why
				}
			case *ssa.Extract:
			case *ssa.Next:
			case ssa.CallInstruction:
				n := CalleeName(u)
				switch {
				case n == "builtin:len":
				case n == "builtin:delete" || n == "builtin:clear":
					if len(u.Common().Args) > 0 && u.Common().Args[0] == v {
						return "deleted from"
					}
				default:
					if _, isCall := u.(*ssa.Call); !isCall {
						return "handed to a go/defer call"
					}
					if !writesNoMap(StaticCallee(u), 0) {
						return "handed to " + n + ", which may write maps"
					}
					// an iterator / clone derived from it: fine as long as the callee writes nothing
				}
			case *ssa.Store:
				if u.Val == v {
					if a, isA := u.Addr.(*ssa.Alloc); isA {
						// a local variable: follow its loads
						for _, r2 := range *a.Referrers() {
							if ld, isLd := r2.(*ssa.UnOp); isLd {
								if why := readOnly(ld, isSetMap, d+1); why != "" {
									return why
								}
							} else if _, isSt := r2.(*ssa.Store); !isSt {
								if _, isDbg := r2.(*ssa.DebugRef); !isDbg {
									return "kept in a variable that escapes"
								}
							}
						}
						continue
					}
					return "stored away"
				}
			case *ssa.Return:
				return "returned (aliased) to the caller"
			case *ssa.BinOp:
			default:
				return fmt.Sprintf("used by %T", u)
			}
		}
		return ""
	}
	for _, fld := range []string{"nodes", "predecessors", "successors"} {
		field := c05Cur.F("graph." + fld)
		if field == "" {
			continue
		}
		seen := map[string]bool{}
		for _, u := range c05FieldUses(c05ModuleFuncs(c.P), c07GraphT, field) {
			if allowed[u.Fn] || pathIsFresh(accessPath(u.Addr.X)) {
				continue
			}
			why := ""
			switch x := u.Use.(type) {
			case *ssa.UnOp:
				why = readOnly(x, fld != "nodes", 0)
			case *ssa.Store:
				if x.Addr == ssa.Value(u.Addr) {
					why = "replaced"
				}
			default:
				why = fmt.Sprintf("address taken (%T)", x)
			}
			key := FnName(u.Fn) + "|" + fld + "|only-index-and-remove-write-the-graph"
			if why != "" {
				c.Violation(R, key, u.Use.Pos(), "graph.Memory."+fld+" is "+why+" in "+FnName(u.Fn)+", which is neither the index step nor Remove (nor a helper of theirs): edges that the index step did not derive from a node's content, or that Remove does not undo, break exactness of Predecessors")
				seen[key] = true
			} else if !seen[key] {
				seen[key] = true
				c.OK(R, key, u.Use.Pos(), "read-only use outside index/Remove")
			}
		}
	}
}

// c07R1Key: the graph key descriptor.FromOCI(d) carries d's MediaType, Digest and Size.
func c07R1Key(c *Ctx) {
	const R = "C07.R1.inverse-relation"
	fn := c.P.Fn("internal/descriptor", "FromOCI")
	if fn == nil || len(fn.Blocks) == 0 || len(fn.Params) != 1 {
		c.LostAnchor(R, c07FromOCI)
		return
	}
	ok, detail := true, "the key copies MediaType, Digest and Size of the descriptor"
	n := 0
	for _, r := range Returns(fn) {
		for _, v := range Roots(c05Unspill(r.Results[0])) {
			n++
			al, isAl := v.(*ssa.UnOp)
			var lit *ssa.Alloc
			if isAl {
				lit, _ = al.X.(*ssa.Alloc)
			}
			if a, isA := v.(*ssa.Alloc); isA {
				lit = a
			}
			if lit == nil {
				ok, detail = false, "FromOCI returns "+describe(v)+": not a key literal"
				continue
			}
			got := map[string]bool{}
			for _, ref := range *lit.Referrers() {
				fa, isFA := ref.(*ssa.FieldAddr)
				if !isFA {
					continue
				}
				name := c05FieldNameOf(fa.X.Type(), fa.Field)
				for _, r2 := range *fa.Referrers() {
					if st, isSt := r2.(*ssa.Store); isSt && st.Addr == ssa.Value(fa) && c05FieldOfParam(st.Val, name) == fn.Params[0] {
						got[name] = true
					}
				}
			}
			for _, f := range []string{"MediaType", "Digest", "Size"} {
				if !got[f] {
					ok, detail = false, "the graph key does not carry the descriptor's "+f+": distinct nodes collapse into one key (extras / omissions in Predecessors)"
				}
			}
		}
	}
	c.Check(R, FnName(fn)+"|key-identifies-node", fn.Pos(), ok && n > 0, detail)
}

// c07R1Forwarders: the stores' Predecessors hand back the graph's answer for
// the node they were asked about, without filtering.
func c07R1Forwarders(c *Ctx) {
	const R = "C07.R1.inverse-relation"
	type t struct{ pkg, name string }
	for _, x := range []t{{"content/memory", "Store.Predecessors"}, {"content/oci", "Store.Predecessors"}, {"content/oci", "ReadOnlyStore.Predecessors"}, {"content/file", "Store.Predecessors"}} {
		fn := c.P.Fn(x.pkg, x.name)
		if fn == nil || len(fn.Blocks) == 0 {
			c.LostAnchor(R, x.pkg+"."+x.name)
			continue
		}
		node := c07DescParam(fn)
		var gp []*ssa.Call
		for _, call := range CallsTo(fn, "(*~/internal/graph.Memory).Predecessors") {
			a := call.Common().Args
			if cc, isCall := call.(*ssa.Call); isCall && node != nil && c05ParamOf(a[len(a)-1]) == node {
				gp = append(gp, cc)
			}
		}
		ok, detail := len(gp) > 0, "every return is the graph's answer for the same node, or an error"
		errIdx := ErrResultIndex(fn.Signature)
		for _, r := range Returns(fn) {
			if !ReachableFromEntry(r) {
				continue
			}
			allNonNil := errIdx >= 0
			if errIdx >= 0 {
				for _, ev := range Roots(r.Results[errIdx]) {
					if ErrNilStatus(ev, 0) != NonNil {
						allNonNil = false
					}
				}
			}
			if allNonNil {
				continue // refusal (e.g. store closed)
			}
			for _, v := range Roots(r.Results[0]) {
				e, isE := v.(*ssa.Extract)
				good := false
				if isE && e.Index == 0 {
					for _, g := range gp {
						if e.Tuple == ssa.Value(g) {
							good = true
						}
					}
				}
				if !good {
					ok, detail = false, "a path returns "+describe(v)+" with a possibly-nil error instead of graph.Predecessors(node): predecessors are filtered or replaced (e.g. hidden when the node itself is absent)"
				}
			}
		}
		c.Check(R, FnName(fn)+"|returns-graph-answer", fn.Pos(), ok, detail)
	}
}

// ---------------------------------------------------------------- R2

func c07R2Push(c *Ctx) {
	const R = "C07.R2.every-push-indexed"
	c.Expect(R, 15) // 16 on the pinned tree
	type t struct {
		pkg, name string
		skip      string
	}
	for _, x := range []t{{"content/memory", "Store.Push", ""}, {"content/oci", "Store.Push", ""}, {"content/file", "Store.Push", "skip"}} {
		fn := c.P.Fn(x.pkg, x.name)
		if fn == nil || len(fn.Blocks) == 0 {
			c.LostAnchor(R, x.pkg+"."+x.name)
			continue
		}
		tn := FnName(fn)
		root := c05Root(fn)
		expected := c07DescParam(fn)
		isExpected := func(v ssa.Value, e *c05Env) bool {
			if expected == nil {
				return false
			}
			w, at := e.up(v)
			if !at.isRoot() {
				return false
			}
			return c05DescSource(w) == expected
		}
		type hit struct {
			call ssa.CallInstruction
			env  *c05Env
		}
		var hits []hit
		seenHit := map[ssa.Instruction]bool{}
		spec := c05PassSpec{Success: true,
			Instr: func(in ssa.Instruction, e *c05Env) bool {
				call, ok := in.(*ssa.Call)
				if !ok || (CalleeName(call) != c07Index && CalleeName(call) != c07IdxAll) {
					return false
				}
				a := call.Call.Args
				if !isExpected(a[len(a)-1], e) {
					return false
				}
				if !seenHit[in] {
					seenHit[in] = true
					hits = append(hits, hit{call, e})
				}
				return true
			},
			Edges: func(e *c05Env) []Edge {
				var out []Edge
				if x.skip != "" {
					skip := map[string]bool{}
					for _, sn := range c05SkipSentinels(c.P) {
						skip[sn] = true
					}
					te, _, _ := CallTests(e.Fn, "errors.Is", func(call *ssa.Call) bool { return skip[sentinelName(call.Call.Args[1])] })
					out = append(out, te...)
					// `err == errSkipUnnamed` / switch forms
					eq, _ := c05EqEdges(e.Fn, func(v ssa.Value) bool { return isErrorType(v.Type()) }, func(v ssa.Value) bool { return skip[sentinelName(v)] })
					out = append(out, eq...)
				}
				// kinds without outgoing edges need no indexing (R3 ties IsManifest to the kinds Successors decodes)
				_, notManifest, _ := CallTests(e.Fn, "~/internal/descriptor.IsManifest", func(call *ssa.Call) bool { return isExpected(call.Call.Args[0], e) })
				return append(out, notManifest...)
			}}
		ok := c05SuccessPasses(root, spec)
		if len(hits) == 0 {
			c.Violation(R, tn+"|index-on-every-success", fn.Pos(), "Push never indexes the pushed descriptor in the predecessor graph: Predecessors omits every edge of this manifest")
			continue
		}
		c.Check(R, tn+"|index-on-every-success", hits[0].call.Pos(), ok,
			ifelse(ok, "every path to a nil error passes graph.Index(expected)"+ifelse(x.skip != "", " (discarded unnamed content excepted)", ""), "Push can succeed without indexing the pushed node: Predecessors of its successors omit it"))
		okErr, detail := true, ""
		for _, h := range hits {
			r := c05ErrFlow(h.call, ErrFlowOpts{})
			if !r.OK {
				okErr, detail = false, r.Detail
			} else if detail == "" {
				detail = r.How
			}
			for e := h.env; e.Call != nil && e.Parent != nil; e = e.Parent {
				if ErrOf(e.Call) == nil {
					okErr, detail = false, "the helper "+FnName(e.Fn)+" that indexes has its error discarded at "+c.P.Pos(e.Call.Pos())
					continue
				}
				if r := c05ErrFlow(e.Call, ErrFlowOpts{Tolerated: ifelseS(x.skip != "", c05SkipSentinels(c.P), nil)}); !r.OK {
					okErr, detail = false, r.Detail
				}
			}
		}
		c.Check(R, tn+"|index-error-returned", hits[0].call.Pos(), okErr, detail)
	}
}

func ifelseS(b bool, x, y []string) []string {
	if b {
		return x
	}
	return y
}

func c07R2Delete(c *Ctx) {
	const R = "C07.R2.every-push-indexed"
	fn := c.P.Fn("content/oci", "Store.Delete")
	if fn == nil || len(fn.Blocks) == 0 {
		c.LostAnchor(R, "(*~/content/oci.Store).Delete")
		return
	}
	tn := FnName(fn)
	root := c05Root(fn)
	isBlobDelete := func(n string) bool {
		return n == "(*~/content/oci.Storage).Delete" || n == "(~/content.Deleter).Delete"
	}
	n := 0
	for _, e := range c05TreeEnvs(root, 3) {
		for _, d := range Calls(e.Fn, isBlobDelete) {
			if _, isDefer := d.(*ssa.Defer); isDefer {
				continue
			}
			n++
			a := d.Common().Args
			dv, dat := e.up(a[len(a)-1])
			same := func(v ssa.Value, at *c05Env) bool {
				rv, rat := at.up(v)
				if rat != dat {
					return false
				}
				if rv == dv || SameValue(rv, dv) {
					return true
				}
				p, q := c05ParamOf(rv), c05ParamOf(dv)
				return p != nil && p == q
			}
			spec := c05PassSpec{Instr: func(in ssa.Instruction, e2 *c05Env) bool {
				call, ok := in.(*ssa.Call)
				if !ok || CalleeName(call) != c07Remove {
					return false
				}
				ra := call.Call.Args
				return same(ra[len(ra)-1], e2)
			}}
			// (a) the node is removed from the graph before the blob is deleted …
			before := false
			var tgt ssa.Instruction = d.(ssa.Instruction)
			for lv := e; lv != nil; lv = lv.Parent {
				ct := c05PassCut(lv, spec)
				if len(ct.instrs) > 0 && MustPass(tgt, ct) {
					before = true
					break
				}
				if lv.Call == nil {
					break
				}
				tgt = lv.Call.(ssa.Instruction)
			}
			// (b) … or right after it succeeded, before success is reported / the next node is processed
			after := false
			if !before {
				ct := c05PassCut(e, spec)
				ct.Edges(func() []Edge { _, ne, _ := NilTests(e.Fn, Aliases(ErrOf(d))); return ne }()...)
				if len(ct.instrs) > 0 {
					after = true
					for _, at := range c05MaybeNilAtoms(e.Fn) {
						if reach(d.Block(), instrIndex(d.(ssa.Instruction))+1, at.Ret, ct) {
							after = false
						}
					}
					for _, l := range Loops(e.Fn) {
						if l.Contains(d.(ssa.Instruction)) && reach(d.Block(), instrIndex(d.(ssa.Instruction))+1, l.Header.Instrs[0], ct) {
							after = false
						}
					}
				}
			}
			ok := before || after
			c.Check(R, tn+"|delete-removes-node-from-graph", d.Pos(), ok,
				ifelse(ok, "the blob is deleted only together with graph.Remove of the same descriptor", "a blob can be deleted without removing its node from the predecessor graph: Predecessors keeps reporting the deleted manifest"))
		}
	}
	if n == 0 {
		c.Violation(R, tn+"|delete-removes-node-from-graph", fn.Pos(), "Delete no longer removes the blob through the storage (anchor shape lost)")
	}
}

func c07R2Load(c *Ctx) {
	const R = "C07.R2.every-push-indexed"
	n := 0
	for _, fn := range c05FuncsOfPkg(c.P, "content/oci") {
		if fn.Parent() != nil {
			continue
		}
		var idxParam, graphParam *ssa.Parameter
		for _, p := range fn.Params {
			ts := p.Type().String()
			if strings.HasSuffix(ts, "specs-go/v1.Index") {
				idxParam = p
			}
			if strings.HasSuffix(ts, "internal/graph.Memory") {
				graphParam = p
			}
		}
		if idxParam == nil {
			continue
		}
		root := c05Root(fn)
		hasIA := false
		for _, e := range c05TreeEnvs(root, 3) {
			if len(CallsTo(e.Fn, c07IdxAll)) > 0 {
				hasIA = true
			}
		}
		if !hasIA {
			continue
		}
		n++
		tn := FnName(fn)
		isS := func(v ssa.Value) bool {
			rs := Roots(v)
			if len(rs) == 0 {
				return false
			}
			for _, r := range rs {
				u, isU := r.(*ssa.UnOp)
				if !isU || u.Op != token.MUL {
					return false
				}
				fa, isFA := u.X.(*ssa.FieldAddr)
				if !isFA || fa.X != ssa.Value(idxParam) || c05FieldNameOf(fa.X.Type(), fa.Field) != "Manifests" {
					return false
				}
			}
			return true
		}
		var it *c05Iter
		for _, x := range c05ItersIn(root) {
			if bs := x.Base(); bs != nil && bs.Kind == "slice" && bs.CollAt.isRoot() && isS(bs.Coll) && x.Exact() {
				it = x
			}
		}
		if it == nil {
			c.Undecided(R, tn+"|reindex-every-manifest", fn.Pos(), "no loop over every element of index.Manifests recognised (range / index / iterator forms)")
			continue
		}
		isElem := func(x ssa.Value, at *c05Env) bool { return it.IsElem(x, at, "val") }
		var fromElem func(v ssa.Value, e *c05Env, d int) bool
		fromElem = func(v ssa.Value, e *c05Env, d int) bool {
			w, at := e.up(v)
			if isElem(w, at) {
				return true
			}
			if d > 3 {
				return false
			}
			rs := Roots(c05Unspill(w))
			if len(rs) == 0 {
				return false
			}
			for _, r := range rs {
				call, isCall := strip(r).(*ssa.Call)
				if !isCall || CalleeName(call) != "~/internal/descriptor.Plain" || !fromElem(call.Call.Args[0], at, d+1) {
					return false
				}
			}
			return true
		}
		var ias []ssa.CallInstruction
		spec := c05PassSpec{Success: true, Instr: func(in ssa.Instruction, e *c05Env) bool {
			call, ok := in.(*ssa.Call)
			if !ok || CalleeName(call) != c07IdxAll {
				return false
			}
			a := call.Call.Args
			if graphParam != nil {
				if g, at := e.up(a[0]); !at.isRoot() || strip(g) != ssa.Value(graphParam) {
					return false
				}
			}
			if !fromElem(a[len(a)-1], e, 0) {
				return false
			}
			ias = append(ias, call)
			return true
		}}
		be := it.BodyEnv()
		ct := c05PassCut(be, spec)
		var inLoop []ssa.Instruction
		for in := range ct.instrs {
			if it.Contains(in, be) {
				inLoop = append(inLoop, in)
			}
		}
		ok := (len(ct.instrs) > 0 || len(ct.edges) > 0) && !it.SkipsCut(ct)
		c.Check(R, tn+"|reindex-every-manifest", it.Entry().Pos(), ok,
			ifelse(ok, "every iteration over index.Manifests calls graph.IndexAll for that entry (or returns an error)", "an entry of index.Manifests can be skipped when the layout is (re)opened: its edges are missing from Predecessors after reopen"))
		okErr, detail := true, "the IndexAll error reaches the caller"
		seen := map[ssa.Instruction]bool{}
		flow := func(call ssa.CallInstruction) {
			if seen[call.(ssa.Instruction)] {
				return
			}
			seen[call.(ssa.Instruction)] = true
			var r ErrFlowResult
			if it.Y != nil && call.Parent() == it.Y.Fn {
				r = c05YieldErrFlow(call, it)
			} else {
				r = c05ErrFlow(call, ErrFlowOpts{})
			}
			if !r.OK {
				okErr, detail = false, r.Detail
			}
		}
		for _, in := range inLoop {
			flow(in.(ssa.CallInstruction))
		}
		for _, ia := range ias {
			flow(ia)
		}
		AllInstrs(be.Fn, func(x ssa.Instruction) {
			if call, isCall := x.(*ssa.Call); isCall && it.Contains(x, be) && c05Helper(call, be.Fn) != nil && ErrOf(call) != nil {
				flow(call)
			}
		})
		c.Check(R, tn+"|reindex-error-returned", it.Entry().Pos(), okErr, detail)
		// callers pass their own graph
		for _, g := range c05FuncsOfPkg(c.P, "content/oci") {
			for _, call := range Calls(g, func(string) bool { return true }) {
				if StaticCallee(call) != fn || graphParam == nil {
					continue
				}
				var gi int
				for i, p := range fn.Params {
					if p == graphParam {
						gi = i
					}
				}
				arg := call.Common().Args[gi]
				okG := false
				if u, isU := arg.(*ssa.UnOp); isU && u.Op == token.MUL {
					if fa, isFA := u.X.(*ssa.FieldAddr); isFA && c05IsNamedType(fa.Type().(*types.Pointer).Elem(), "internal/graph", "Memory") && len(g.Params) > 0 && fa.X == ssa.Value(g.Params[0]) {
						okG = true
					}
				}
				c.Check(R, FnName(g)+"|loads-into-own-graph", call.Pos(), okG, ifelse(okG, "the index is loaded into the store's own graph", "the index is loaded into a graph other than the one Predecessors reads"))
			}
		}
	}
	if n == 0 {
		c.LostAnchor(R, "function of ~/content/oci that re-indexes an ocispec.Index with graph.IndexAll (loadIndex role)")
	}
}

// c07R2Open: "after an OCI layout is closed and opened again": every constructor of an OCI store (a function of
// content/oci returning a pointer to a struct that carries a *graph.Memory, and an error) hands out a store only after
// the index of the layout was loaded into it — a successful call of a load-role function (one whose call tree re-indexes
// an ocispec.Index with graph.IndexAll: c07R2Load) on that very store — or delegates to another such constructor.
func c07R2Open(c *Ctx) {
	const R = "C07.R2.every-push-indexed"
	fns := c05FuncsOfPkg(c.P, "content/oci")
	// load-role functions
	loadIdx := map[*ssa.Function]bool{}
	for _, f := range fns {
		if f.Parent() != nil {
			continue
		}
		hasIdx := false
		for _, p := range f.Params {
			if strings.HasSuffix(p.Type().String(), "specs-go/v1.Index") {
				hasIdx = true
			}
		}
		if !hasIdx {
			continue
		}
		for _, e := range c05TreeEnvs(c05Root(f), 3) {
			if len(CallsTo(e.Fn, c07IdxAll)) > 0 {
				loadIdx[f] = true
			}
		}
	}
	loads := map[*ssa.Function]bool{}
	for _, f := range fns {
		if f.Parent() != nil || loadIdx[f] {
			continue
		}
		for _, e := range c05TreeEnvs(c05Root(f), 3) {
			for _, call := range Calls(e.Fn, func(string) bool { return true }) {
				if g := StaticCallee(call); g != nil && loadIdx[g] {
					loads[f] = true
				}
			}
		}
	}
	isStoreT := func(t types.Type) bool {
		pt, ok := t.(*types.Pointer)
		if !ok {
			return false
		}
		st, ok := pt.Elem().Underlying().(*types.Struct)
		if !ok {
			return false
		}
		for i := 0; i < st.NumFields(); i++ {
			if c05IsNamedType(st.Field(i).Type(), "internal/graph", "Memory") {
				return true
			}
		}
		return false
	}
	isCtor := func(f *ssa.Function) bool {
		r := f.Signature.Results()
		return f.Parent() == nil && f.Signature.Recv() == nil && r.Len() == 2 && isStoreT(r.At(0).Type()) && ErrResultIndex(f.Signature) == 1 && len(f.Blocks) > 0
	}
	n := 0
	for _, f := range fns {
		if !isCtor(f) {
			continue
		}
		n++
		tn := FnName(f)
		if len(loads) == 0 {
			c.LostAnchor(R, "method of the OCI stores that loads index.json into the graph (load role)")
			return
		}
		ok, detail := true, "every store handed out has had its index loaded (or comes from another constructor)"
		for _, a := range RetAtoms(f, 0) {
			if k, isK := a.Val.(*ssa.Const); isK && k.Value == nil {
				continue
			}
			v := strip(a.Val)
			if ex, isE := v.(*ssa.Extract); isE && ex.Index == 0 {
				if call, isC := ex.Tuple.(*ssa.Call); isC && StaticCallee(call) != nil && isCtor(StaticCallee(call)) {
					continue // delegation: the other constructor is held to the same rule
				}
			}
			al, isA := v.(*ssa.Alloc)
			if !isA {
				ok, detail = false, "the store returned at "+c.P.Pos(a.Ret.Pos())+" is "+describe(v)+": neither built here nor by another constructor"
				continue
			}
			ct := newCut()
			for _, call := range Calls(f, func(string) bool { return true }) {
				g := StaticCallee(call)
				if g == nil || !loads[g] || isCtor(g) {
					continue
				}
				onStore := false
				for _, arg := range call.Common().Args {
					if SameValue(arg, al) {
						onStore = true
					}
				}
				if !onStore {
					continue
				}
				if _, plain := call.(*ssa.Call); !plain {
					continue
				}
				ct.Edges(c05NilEdgesOf(call)...)
			}
			// the load as a step of a step table: leaving the table's loop normally means it succeeded
			for _, t := range c05StepTables(f) {
				for _, sv := range t.Steps {
					g := c05StepFn(sv)
					if g == nil {
						continue
					}
					child := &c05Env{Fn: g, Parent: c05Root(f)}
					for _, call := range Calls(g, func(string) bool { return true }) {
						h := StaticCallee(call)
						if h == nil || !loads[h] || isCtor(h) {
							continue
						}
						onStore := false
						for _, arg := range call.Common().Args {
							if w, wat := child.up(arg); wat.isRoot() && SameValue(w, al) {
								onStore = true
							}
						}
						if !onStore {
							continue
						}
						the := call
						sp := c05PassSpec{Success: true, Instr: func(in ssa.Instruction, _ *c05Env) bool { return false },
							Edges: func(e *c05Env) []Edge {
								if e.Fn == g {
									return c05NilEdgesOf(the)
								}
								return nil
							},
							Returned: func(v ssa.Value, e *c05Env) bool { return e.Fn == g && strip(v) == ssa.Value(the.Value()) }}
						if c05SuccessPasses(child, sp) {
							ct.Edges(t.Done...)
						}
					}
				}
			}
			if len(ct.edges) == 0 || !c05AtomMustPass(a, ct) {
				ok, detail = false, "the store returned at "+c.P.Pos(a.Ret.Pos())+" can be handed out without its index.json having been loaded successfully: Predecessors (and tags) of a reopened layout are empty"
			}
		}
		c.Check(R, tn+"|opens-only-with-index-loaded", f.Pos(), ok, detail)
	}
	if n == 0 {
		c.LostAnchor(R, "constructors of the OCI stores")
	}
}

func c07R2GC(c *Ctx) {
	const R = "C07.R2.every-push-indexed"
	n := 0
	for _, fn := range c05FuncsOfPkg(c.P, "content/oci") {
		for _, G := range CallsTo(fn, "~/internal/graph.NewMemory") {
			var ias []ssa.CallInstruction
			otherGraph := false
			for _, e := range c05TreeEnvs(c05Root(fn), 3) {
				for _, ia := range CallsTo(e.Fn, c07IdxAll, c07Index) {
					recv, at := e.up(ia.Common().Args[0])
					if at.isRoot() && SameValue(recv, G.Value()) {
						ias = append(ias, ia)
						if CalleeName(ia) != c07IdxAll {
							otherGraph = true
						}
					} else if _, isP := recv.(*ssa.Parameter); !(isP && !at.isRoot()) {
						otherGraph = true
					}
				}
			}
			if len(ias) == 0 {
				continue // constructor: the graph is filled elsewhere
			}
			n++
			tn := FnName(fn)
			// installed: stored into the store's graph field (of an existing store, or of the one being constructed)
			var installs []ssa.Instruction
			AllInstrs(fn, func(in ssa.Instruction) {
				st, isStore := in.(*ssa.Store)
				if !isStore {
					return
				}
				if w, _ := c05Root(fn).up(st.Val); !SameValue(st.Val, G.Value()) && !SameValue(w, G.Value()) {
					return
				}
				if fa, isFA := st.Addr.(*ssa.FieldAddr); isFA && c05IsNamedType(fa.Type().(*types.Pointer).Elem(), "internal/graph", "Memory") {
					installs = append(installs, st)
				}
			})
			ok := len(installs) > 0
			for _, a := range c05MaybeNilAtoms(fn) {
				if ok && !c05AtomMustPass(a, newCut().Instr(installs...)) {
					ok = false
				}
			}
			// no other graph is indexed into in this function, and roots are indexed transitively
			if otherGraph && len(CallsTo(fn, "~/internal/graph.NewMemory")) == 1 {
				ok = false
			}
			// the graph is installed when it is complete: no indexing into it is still ahead of an install (a failure of that
			// later indexing would leave the store with a half-built graph: Predecessors loses the edges not yet re-read)
			late := ""
			for _, st := range installs {
				if pathIsFresh(accessPath(st.(*ssa.Store).Addr.(*ssa.FieldAddr).X)) {
					continue // a store under construction is not visible yet
				}
				for _, ia := range ias {
					// the instruction of fn through which the indexing call is reached
					var top ssa.Instruction
					if ia.Parent() == fn {
						top = ia.(ssa.Instruction)
					} else {
						for _, e := range c05TreeEnvs(c05Root(fn), 3) {
							if e.Fn != ia.Parent() {
								continue
							}
							for lv := e; lv != nil && lv.Parent != nil; lv = lv.Parent {
								if lv.Parent.isRoot() && lv.Call != nil {
									top = lv.Call.(ssa.Instruction)
								}
							}
						}
					}
					if top != nil && top.Parent() == fn && reach(st.Block(), instrIndex(st)+1, top, nil) {
						late = c.P.Pos(ia.Pos())
					}
				}
			}
			c.Check(R, tn+"|graph-installed-only-when-complete", G.Pos(), late == "",
				ifelse(late == "", "no IndexAll into the rebuilt graph is reachable after it was installed", "the rebuilt graph is installed while the indexing at "+late+" is still ahead: if that fails, GC leaves a half-built graph behind"))
			c.Check(R, tn+"|rebuilt-graph-installed", G.Pos(), ok,
				ifelse(ok, fmt.Sprintf("the %d IndexAll call(s) fill the new graph and every successful path installs it as s.graph", len(ias)), "GC rebuilds a predecessor graph but does not install it on every successful path, indexes into another graph, or indexes roots without their descendants (Index instead of IndexAll): Predecessors after GC reports removed manifests or misses kept ones"))
		}
	}
	if n == 0 {
		c.OK(R, "~/content/oci|rebuilt-graph-installed", token.NoPos, "the OCI store never rebuilds its graph")
	}
	// and nobody else replaces s.graph of a shared store
	for _, u := range c05FieldUses(c05FuncsOfPkg(c.P, "content/oci"), "~/content/oci.Store", c05Cur.F("oci.graph")) {
		st, isStore := u.Use.(*ssa.Store)
		if !isStore || pathIsFresh(accessPath(u.Addr.X)) {
			continue
		}
		rs := Roots(st.Val)
		if w, at := c05Root(u.Fn).up(st.Val); at.isRoot() && len(rs) == 1 {
			// through a carrier struct built in this function
			rs = Roots(w)
		}
		ok := len(rs) == 1
		if ok {
			call, isCall := rs[0].(*ssa.Call)
			ok = isCall && CalleeName(call) == "~/internal/graph.NewMemory" && call.Parent() == u.Fn
		}
		if !ok {
			c.Undecided(R, FnName(u.Fn)+"|graph-replaced-by-unknown", st.Pos(), "s.graph is replaced by "+describe(st.Val)+": not a graph rebuilt in this function")
		}
	}
}

// c07R2IndexWrapper: the exported Index delegates to the index step for its own node and returns its error.
func c07R2IndexWrapper(c *Ctx) {
	const R = "C07.R2.every-push-indexed"
	fn := c.P.Fn("internal/graph", "Memory.Index")
	if fn == nil || len(fn.Blocks) == 0 {
		c.LostAnchor(R, c07Index)
		return
	}
	if len(CallsTo(fn, "~/content.Successors")) > 0 {
		c.OK(R, FnName(fn)+"|delegates-to-index-step", fn.Pos(), "Index is the index step itself (checked by R1)")
		return
	}
	node := c07DescParam(fn)
	var steps []ssa.CallInstruction
	for _, call := range Calls(fn, func(string) bool { return true }) {
		if g := StaticCallee(call); g != nil && fnPkgPath(g) == pkgPath("internal/graph") && g.Parent() == nil && len(CallsTo(g, "~/content.Successors")) > 0 {
			a := call.Common().Args
			if node != nil && c05ParamOf(a[len(a)-1]) == node && SameValue(a[0], fn.Params[0]) {
				steps = append(steps, call)
			}
		}
	}
	ok := len(steps) > 0
	detail := "Index(node) runs the index step on the same graph and node and returns its error"
	stepAl := map[ssa.Value]bool{}
	for _, st := range steps {
		if e := ErrOf(st); e != nil {
			for a := range Aliases(e) {
				stepAl[a] = true
			}
		}
		if r := c05ErrFlow(st, ErrFlowOpts{}); !r.OK {
			ok, detail = false, "the index step's error is not returned: "+r.Detail
		}
	}
	for _, a := range c05MaybeNilAtoms(fn) {
		if stepAl[a.Val] {
			continue
		}
		if !c05AtomMustPass(a, newCut().Calls(steps)) {
			ok, detail = false, "Index can return nil without running the index step: a pushed manifest's edges are never recorded"
		}
	}
	c.Check(R, FnName(fn)+"|delegates-to-index-step", fn.Pos(), ok, detail)
}

func c07R2IndexAll(c *Ctx) {
	const R = "C07.R2.every-push-indexed"
	fn := c.P.Fn("internal/graph", "Memory.IndexAll")
	if fn == nil || len(fn.Blocks) == 0 {
		c.LostAnchor(R, c07IdxAll)
		return
	}
	// the traversal step: the function of the package (closure, method or plain function) that runs the index
	// step on its own descriptor parameter and dispatches over the result with syncutil.Go
	var T *ssa.Function
	var idxCall ssa.CallInstruction
	for _, a := range c05FuncsOfPkg(c.P, "internal/graph") {
		if len(CallsTo(a, nGo)) == 0 || len(CallsTo(a, "~/content.Successors")) > 0 {
			continue
		}
		for _, call := range Calls(a, func(string) bool { return true }) {
			if g := StaticCallee(call); g != nil && fnPkgPath(g) == pkgPath("internal/graph") && len(CallsTo(g, "~/content.Successors")) > 0 {
				if d := c07DescParam(a); d != nil && c05ParamOf(call.Common().Args[len(call.Common().Args)-1]) == d {
					T, idxCall = a, call
				}
			}
		}
	}
	if T == nil {
		c.LostAnchor(R, "traversal closure of IndexAll (calls the index step)")
		return
	}
	tn := FnName(T)
	desc := c07DescParam(T)
	a := idxCall.Common().Args
	okD := desc != nil && c05ParamOf(a[len(a)-1]) == desc
	S := ResultOf(idxCall, 0)
	r := c05ErrFlow(idxCall, ErrFlowOpts{Tolerated: []string{"~/errdef.ErrNotFound"}})
	c.Check(R, tn+"|skips-only-not-found", idxCall.Pos(), okD && r.OK, ifelse(okD && r.OK, "the visited node is indexed; only ErrNotFound is skipped: "+r.How, "an indexing failure other than ErrNotFound is swallowed during (re)load: "+r.Detail))
	var gos []ssa.CallInstruction
	for _, g := range CallsTo(T, nGo) {
		if S != nil && SameValue(variadicArg(g), S) {
			gos = append(gos, g)
		}
	}
	ct := newCut().Calls(gos)
	if S != nil {
		ct.Edges(lenZeroEdges(T, S)...)
	}
	ct.Edges(toleratedEdges(T, Aliases(ErrOf(idxCall)), []string{"~/errdef.ErrNotFound"})...)
	for _, tc := range CallsTo(T, nTryCommit) {
		if cm := ResultOf(tc, 1); cm != nil {
			_, fe := BoolTests(T, Aliases(cm))
			ct.Edges(fe...)
		}
	}
	ok := len(gos) > 0
	goAl := map[ssa.Value]bool{}
	for _, g := range gos {
		for al := range Aliases(g.Value()) {
			goAl[al] = true
		}
	}
	for _, at := range c05MaybeNilAtoms(T) {
		if goAl[at.Val] {
			continue
		}
		if !c05AtomMustPass(at, ct) {
			ok = false
		}
	}
	c.Check(R, tn+"|descends-into-all-successors", T.Pos(), ok,
		ifelse(ok, "every nil return follows the dispatch over the successors index returned (or: no successors / already visited / not found)", "the traversal can report success without descending into the successors of an indexed node: deeper edges are missing after reopen or GC"))
	for _, g := range gos {
		rr := c05ErrFlow(g, ErrFlowOpts{})
		c.Check(R, tn+"|dispatch-error-returned", g.Pos(), rr.OK, rr.How+rr.Detail)
	}
}

// ---------------------------------------------------------------- R3

func c07R3(c *Ctx) {
	const R = "C07.R3.edge-bearing-kinds-persisted"
	c.Expect(R, 1)
	im := c.P.Fn("internal/descriptor", "IsManifest")
	su := c.P.Fn("content", "Successors")
	if im == nil || su == nil {
		c.LostAnchor(R, "~/internal/descriptor.IsManifest / ~/content.Successors")
		return
	}
	isMT := func(v ssa.Value) bool { return isFieldLoad(v, "MediaType") }
	a, b := c07StringSet(im, isMT, 0), c07StringSet(su, isMT, 0)
	ok := len(a) > 0 && sameStrings(a, b)
	c.Check(R, "IsManifest==Successors-cases", im.Pos(), ok,
		ifelse(ok, fmt.Sprintf("both accept exactly %v", a), fmt.Sprintf("media types with outgoing edges %v differ from the types oci.Store.Push tags by digest %v: a kind that has successors but is not persisted in index.json loses its edges on reopen (or a persisted kind is never decoded)", b, a)))
}

// ---------------------------------------------------------------- R4

func c07R4(c *Ctx) {
	const R = "C07.R4.lock-discipline"
	c.Expect(R, 18) // 23 on the pinned tree
	LockCheck(c, R, c06WithLockExempts(c, R, []GuardSpec{c06GraphSpec()}, []string{"internal/graph"}), []string{"internal/graph"})
	// the OCI store swaps its graph pointer in GC: readers of s.graph hold s.sync (the unsafeStore exemption is proved under C06.R1)
	LockCheck(c, R, c06WithLockExempts(c, R, []GuardSpec{{Type: "~/content/oci.Store", Fields: []string{c05Cur.F("oci.graph")}, Lock: c05Cur.F("oci.sync"), Exempt: c06UnsafeExempt()}}, []string{"content/oci"}), []string{"content/oci"})
}

var c07Mutants = []Mutant{
	{Name: "gc-installs-graph-before-referrers-indexed", File: "content/oci/oci.go", Old: "\t// index referrer manifests\n", New: "\ts.tagResolver = tagResolver\n\ts.graph = graph\n\t// index referrer manifests\n", Expect: "C07.R2.every-push-indexed|(*~/content/oci.Store).gcIndex|graph-installed-only-when-complete"},
	// keeps the repository's tests green
	{Name: "readonly-open-skips-index-when-stat-fails", File: "content/oci/readonlyoci.go", Old: "\tif err := store.loadIndexFile(ctx); err != nil {\n\t\treturn nil, fmt.Errorf(\"invalid OCI Image Index: %w\", err)\n\t}\n\n\treturn store, nil\n}\n\n// NewFromTar", New: "\tif _, err := fs.Stat(fsys, ocispec.ImageIndexFile); err == nil {\n\t\tif err := store.loadIndexFile(ctx); err != nil {\n\t\t\treturn nil, fmt.Errorf(\"invalid OCI Image Index: %w\", err)\n\t\t}\n\t}\n\n\treturn store, nil\n}\n\n// NewFromTar", Expect: "C07.R2.every-push-indexed|~/content/oci.NewFromFS|opens-only-with-index-loaded"},
	{Name: "exists-prunes-predecessor-entry", File: "internal/graph/memory.go", Old: "\t_, exists := m.nodes[nodeKey]\n\treturn exists\n", New: "\t_, exists := m.nodes[nodeKey]\n\tif !exists {\n\t\tdelete(m.predecessors, nodeKey)\n\t}\n\treturn exists\n", Expect: "C07.R1.inverse-relation|(*~/internal/graph.Memory).Exists|predecessors|only-index-and-remove-write-the-graph"},
	// round 6: an early nil return is accepted for an absent or EMPTY entry only
	{Name: "predecessors-nil-for-singleton-entry", File: "internal/graph/memory.go", Old: "\tif !exists {\n\t\treturn nil, nil\n\t}\n\tvar res []ocispec.Descriptor", New: "\tif !exists || len(set) == 1 {\n\t\treturn nil, nil\n\t}\n\tvar res []ocispec.Descriptor", Expect: "C07.R1.inverse-relation|(*~/internal/graph.Memory).Predecessors|empty-only-when-no-predecessor-entry"},
	// R1 with range-over-func traversals (round 4): the iterator forms are accepted only when every element is visited
	{Name: "remove-iterates-filtered-successors", File: "internal/graph/memory.go", Old: "\tfor successorKey := range m.successors[nodeKey] {\n", New: "\tfor successorKey := range func(yield func(descriptor.Descriptor) bool) {\n\t\tfor k := range m.successors[nodeKey] {\n\t\t\tif k.Size > 0 && !yield(k) {\n\t\t\t\treturn\n\t\t\t}\n\t\t}\n\t} {\n", Expect: "C07.R1.inverse-relation|(*~/internal/graph.Memory).Remove|loop-over-own-successors"},
	{Name: "index-iterator-skips-successors", File: "internal/graph/memory.go", Old: "\tfor _, successor := range successors {\n", New: "\tfor successor := range func(yield func(ocispec.Descriptor) bool) {\n\t\tfor i, d := range successors {\n\t\t\tif i%2 == 0 && !yield(d) {\n\t\t\t\treturn\n\t\t\t}\n\t\t}\n\t} {\n", Expect: "C07.R1.inverse-relation|(*~/internal/graph.Memory).index|loop-over-successors"},
	{Name: "index-yield-body-skips-edges", File: "internal/graph/memory.go", Old: "\tfor _, successor := range successors {\n\t\tsuccessorKey := descriptor.FromOCI(successor)\n", New: "\tfor successor := range func(yield func(ocispec.Descriptor) bool) {\n\t\tfor _, d := range successors {\n\t\t\tif !yield(d) {\n\t\t\t\treturn\n\t\t\t}\n\t\t}\n\t} {\n\t\tsuccessorKey := descriptor.FromOCI(successor)\n\t\tif successor.Size == 0 {\n\t\t\tcontinue\n\t\t}\n", Expect: "C07.R1.inverse-relation|(*~/internal/graph.Memory).index|successor-edge-every-iteration"},
	// R1 index
	{Name: "index-drops-predecessor-edge", File: "internal/graph/memory.go", Old: "\t\tpredecessorSet.Add(nodeKey)\n", New: "", Expect: "C07.R1.inverse-relation|(*~/internal/graph.Memory).index|predecessor-edge-every-iteration"},
	{Name: "index-new-predecessor-set-not-stored", File: "internal/graph/memory.go", Old: "\t\t\tm.predecessors[successorKey] = predecessorSet\n", New: "", Expect: "C07.R1.inverse-relation|(*~/internal/graph.Memory).index|predecessor-edge-every-iteration"},
	{Name: "index-drops-successor-edge", File: "internal/graph/memory.go", Old: "\t\tsuccessorSet.Add(successorKey)\n", New: "", Expect: "C07.R1.inverse-relation|(*~/internal/graph.Memory).index|successor-edge-every-iteration"},
	{Name: "index-known-successors-not-relinked", File: "internal/graph/memory.go", Old: "\t\tpredecessorSet, exists := m.predecessors[successorKey]\n\t\tif !exists {", New: "\t\tpredecessorSet, exists := m.predecessors[successorKey]\n\t\tif exists && len(predecessorSet) > 8 {\n\t\t\tcontinue\n\t\t}\n\t\tif !exists {", Expect: "C07.R1.inverse-relation|(*~/internal/graph.Memory).index|predecessor-edge-every-iteration"},
	{Name: "index-node-not-recorded", File: "internal/graph/memory.go", Old: "\tm.nodes[nodeKey] = node\n", New: "", Expect: "C07.R1.inverse-relation|(*~/internal/graph.Memory).index|node-recorded"},
	{Name: "index-keeps-old-successor-set", File: "internal/graph/memory.go", Old: "\tsuccessorSet := set.New[descriptor.Descriptor]()\n\tm.successors[nodeKey] = successorSet\n", New: "\tsuccessorSet := set.New[descriptor.Descriptor]()\n\tif _, ok := m.successors[nodeKey]; !ok {\n\t\tm.successors[nodeKey] = successorSet\n\t}\n", Expect: "C07.R1.inverse-relation|(*~/internal/graph.Memory).index|"},
	// R1 Remove
	{Name: "remove-does-not-unlink", File: "internal/graph/memory.go", Old: "\t\tpredecessorEntry.Delete(nodeKey)\n", New: "", Expect: "C07.R1.inverse-relation|(*~/internal/graph.Memory).Remove|unlink-every-iteration"},
	{Name: "remove-drops-entry-unconditionally", File: "internal/graph/memory.go", Old: "\t\tif len(predecessorEntry) == 0 {", New: "\t\tif len(predecessorEntry) >= 0 {", Expect: "C07.R1.inverse-relation|(*~/internal/graph.Memory).Remove|entry-dropped-only-when-empty"},
	{Name: "remove-keeps-node-entry", File: "internal/graph/memory.go", Old: "\tdelete(m.nodes, nodeKey)\n", New: "", Expect: "C07.R1.inverse-relation|(*~/internal/graph.Memory).Remove|own-nodes-entry-deleted"},
	{Name: "remove-ranges-over-predecessors", File: "internal/graph/memory.go", Old: "\tfor successorKey := range m.successors[nodeKey] {", New: "\tfor successorKey := range m.predecessors[nodeKey] {", Expect: "C07.R1.inverse-relation|(*~/internal/graph.Memory).Remove|loop-over-own-successors"},
	// R1 Predecessors
	{Name: "predecessors-result-capped", File: "internal/graph/memory.go", Old: "\t\tres = append(res, m.nodes[k])\n", New: "\t\tif len(res) < 16 {\n\t\t\tres = append(res, m.nodes[k])\n\t\t}\n", Expect: "C07.R1.inverse-relation|(*~/internal/graph.Memory).Predecessors|one-result-per-predecessor"},
	{Name: "predecessors-reads-successors", File: "internal/graph/memory.go", Old: "\tset, exists := m.predecessors[key]\n", New: "\tset, exists := m.successors[key]\n", Expect: "C07.R1.inverse-relation|(*~/internal/graph.Memory).Predecessors|ranges-over-own-predecessor-set"},
	{Name: "graph-key-without-media-type", File: "internal/descriptor/descriptor.go", Old: "\treturn Descriptor{\n\t\tMediaType: desc.MediaType,\n\t\tDigest:    desc.Digest,", New: "\treturn Descriptor{\n\t\tDigest:    desc.Digest,", Expect: "C07.R1.inverse-relation|~/internal/descriptor.FromOCI|key-identifies-node"},
	{Name: "predecessors-hidden-for-absent-node", File: "internal/graph/memory.go", Old: "\tkey := descriptor.FromOCI(node)\n\tset, exists := m.predecessors[key]\n", New: "\tkey := descriptor.FromOCI(node)\n\tif _, present := m.nodes[key]; !present {\n\t\treturn nil, nil\n\t}\n\tset, exists := m.predecessors[key]\n", Expect: "C07.R1.inverse-relation|(*~/internal/graph.Memory).Predecessors|empty-only-when-no-predecessor-entry"},
	{Name: "readonly-store-filters-predecessors-of-absent-blob", File: "content/oci/readonlyoci.go", Old: "\treturn s.graph.Predecessors(ctx, node)", New: "\tif exists, err := s.storage.Exists(ctx, node); err != nil || !exists {\n\t\treturn nil, err\n\t}\n\treturn s.graph.Predecessors(ctx, node)", Expect: "C07.R1.inverse-relation|(*~/content/oci.ReadOnlyStore).Predecessors|returns-graph-answer"},
	// R2
	{Name: "gc-indexes-roots-only", File: "content/oci/oci.go", Old: "\t\tplain := descriptor.Plain(desc)\n\t\tif err := graph.IndexAll(ctx, s.storage, plain); err != nil {\n\t\t\treturn err\n\t\t}\n\t\ttagged.Add(desc.Digest)", New: "\t\tplain := descriptor.Plain(desc)\n\t\tif err := graph.Index(ctx, s.storage, plain); err != nil {\n\t\t\treturn err\n\t\t}\n\t\ttagged.Add(desc.Digest)", Expect: "C07.R2.every-push-indexed|(*~/content/oci.Store).gcIndex|rebuilt-graph-installed"},
	{Name: "memory-push-not-indexed", File: "content/memory/memory.go", Old: "\treturn s.graph.Index(ctx, s.storage, expected)", New: "\treturn nil", Expect: "C07.R2.every-push-indexed|(*~/content/memory.Store).Push|index-on-every-success"},
	{Name: "oci-push-index-error-ignored", File: "content/oci/oci.go", Old: "\tif err := s.graph.Index(ctx, s.storage, expected); err != nil {\n\t\treturn err\n\t}\n", New: "\t_ = s.graph.Index(ctx, s.storage, expected)\n", Expect: "C07.R2.every-push-indexed|(*~/content/oci.Store).Push|index-error-returned"},
	{Name: "file-push-forcecas-not-indexed", File: "content/file/file.go", Old: "\treturn s.graph.Index(ctx, s, expected)", New: "\tif s.ForceCAS {\n\t\treturn nil\n\t}\n\treturn s.graph.Index(ctx, s, expected)", Expect: "C07.R2.every-push-indexed|(*~/content/file.Store).Push|index-on-every-success"},
	{Name: "oci-delete-keeps-graph-node", File: "content/oci/oci.go", Old: "\tdanglings := s.graph.Remove(target)\n", New: "\tvar danglings []ocispec.Descriptor\n", Expect: "C07.R2.every-push-indexed|"},
	{Name: "oci-delete-removes-only-tagged", File: "content/oci/oci.go", Old: "\tdanglings := s.graph.Remove(target)\n", New: "\tvar danglings []ocispec.Descriptor\n\tif untagged {\n\t\tdanglings = s.graph.Remove(target)\n\t}\n", Expect: "C07.R2.every-push-indexed|(*~/content/oci.Store).Delete|delete-removes-node-from-graph"},
	{Name: "loadindex-skips-untagged-manifests", File: "content/oci/readonlyoci.go", Old: "\t\tplain := descriptor.Plain(desc)\n\t\tif err := graph.IndexAll(ctx, fetcher, plain); err != nil {\n\t\t\treturn err\n\t\t}\n", New: "\t\tif desc.Annotations[ocispec.AnnotationRefName] == \"\" {\n\t\t\tcontinue\n\t\t}\n\t\tplain := descriptor.Plain(desc)\n\t\tif err := graph.IndexAll(ctx, fetcher, plain); err != nil {\n\t\t\treturn err\n\t\t}\n", Expect: "C07.R2.every-push-indexed|~/content/oci.loadIndex|reindex-every-manifest"},
	{Name: "gc-rebuilt-graph-not-installed", File: "content/oci/oci.go", Old: "\ts.tagResolver = tagResolver\n\ts.graph = graph\n", New: "\ts.tagResolver = tagResolver\n", Expect: "C07.R2.every-push-indexed|(*~/content/oci.Store).gcIndex|rebuilt-graph-installed"},
	{Name: "indexall-swallows-every-error", File: "internal/graph/memory.go", Old: "\t\t\tif errors.Is(err, errdef.ErrNotFound) {", New: "\t\t\tif errors.Is(err, errdef.ErrNotFound) || err != nil {", Expect: "C07.R2.every-push-indexed|(*~/internal/graph.Memory).IndexAll$1|skips-only-not-found"},
	{Name: "indexall-no-descent-for-single-successor", File: "internal/graph/memory.go", Old: "\t\tif len(successors) > 0 {", New: "\t\tif len(successors) > 1 {", Expect: "C07.R2.every-push-indexed|(*~/internal/graph.Memory).IndexAll$1|descends-into-all-successors"},
	{Name: "gc-filter-forgets-sha384", File: "content/oci/oci.go", Old: "\tcase digest.SHA256, digest.SHA512, digest.SHA384:", New: "\tcase digest.SHA256, digest.SHA512:", Expect: "C07.R2.every-push-indexed|~/content/oci.isKnownAlgorithm|gc-knows-every-digest-algorithm"},
	{Name: "index-wrapper-skips-leaf-kinds", File: "internal/graph/memory.go", Old: "\t_, err := m.index(ctx, fetcher, node)\n\treturn err", New: "\tif node.MediaType == \"\" {\n\t\treturn nil\n\t}\n\t_, err := m.index(ctx, fetcher, node)\n\treturn err", Expect: "C07.R2.every-push-indexed|(*~/internal/graph.Memory).Index|delegates-to-index-step"},
	// R3
	{Name: "ismanifest-forgets-docker-manifest-list", File: "internal/descriptor/descriptor.go", Old: "\tcase docker.MediaTypeManifest,\n\t\tdocker.MediaTypeManifestList,\n", New: "\tcase docker.MediaTypeManifest,\n", Expect: "C07.R3.edge-bearing-kinds-persisted"},
	// R4
	{Name: "graph-index-under-read-lock", File: "internal/graph/memory.go", Old: "\tm.lock.Lock()\n\tdefer m.lock.Unlock()\n\n\t// index the node", New: "\tm.lock.RLock()\n\tdefer m.lock.RUnlock()\n\n\t// index the node", Expect: "C07.R4.lock-discipline|(*~/internal/graph.Memory).index|"},
	{Name: "oci-predecessors-without-store-lock", File: "content/oci/oci.go", Old: "\ts.sync.RLock()\n\tdefer s.sync.RUnlock()\n\n\treturn s.graph.Predecessors(ctx, node)", New: "\treturn s.graph.Predecessors(ctx, node)", Expect: "C07.R4.lock-discipline|(*~/content/oci.Store).Predecessors|"},
	{Name: "graph-predecessors-without-lock", File: "internal/graph/memory.go", Old: "\tm.lock.RLock()\n\tdefer m.lock.RUnlock()\n\n\tkey := descriptor.FromOCI(node)", New: "\tkey := descriptor.FromOCI(node)", Expect: "C07.R4.lock-discipline|(*~/internal/graph.Memory).Predecessors|"},
}

// c07R2Algorithms: GC forgets every untagged manifest in the rebuilt graph and
// then sweeps blobs/<alg>/ for the algorithms its filter knows; a supported
// algorithm missing from the filter leaves manifests stored (Exists/Fetch
// succeed) that the graph no longer knows: Predecessors omits them for good.
// Necessary condition: the algorithm filter of the OCI store names every
// digest algorithm constant go-digest declares (what Digest.Validate accepts).
func c07R2Algorithms(c *Ctx) {
	const R = "C07.R2.every-push-indexed"
	dp := c.P.TypesPkg("github.com/opencontainers/go-digest")
	if dp == nil {
		c.LostAnchor(R, "github.com/opencontainers/go-digest")
		return
	}
	var want []string
	for _, name := range dp.Scope().Names() {
		k, ok := dp.Scope().Lookup(name).(*types.Const)
		if !ok {
			continue
		}
		if n, isN := k.Type().(*types.Named); isN && n.Obj().Name() == "Algorithm" && k.Val().Kind() == constant.String {
			want = append(want, constant.StringVal(k.Val()))
		}
	}
	sort.Strings(want)
	uniq := want[:0]
	for i, w := range want {
		if i == 0 || w != want[i-1] {
			uniq = append(uniq, w)
		}
	}
	want = uniq
	isAlg := func(v ssa.Value) bool {
		n, ok := v.Type().(*types.Named)
		return ok && n.Obj().Name() == "Algorithm" && n.Obj().Pkg() != nil && n.Obj().Pkg() == dp
	}
	n := 0
	for _, f := range c05FuncsOfPkg(c.P, "content/oci") {
		if f.Signature.Results().Len() != 1 || !types.Identical(f.Signature.Results().At(0).Type(), types.Typ[types.Bool]) {
			continue
		}
		got := c07StringSet(f, isAlg, 0)
		if len(got) == 0 {
			continue
		}
		n++
		missing := ""
		have := map[string]bool{}
		for _, g := range got {
			have[g] = true
		}
		for _, w := range want {
			if !have[w] {
				missing += " " + w
			}
		}
		c.Check(R, FnName(f)+"|gc-knows-every-digest-algorithm", f.Pos(), missing == "" && len(want) > 0,
			ifelse(missing == "", fmt.Sprintf("the algorithm filter accepts every algorithm go-digest declares %v", want),
				"the algorithm filter used by GC's sweep lacks"+missing+": blobs under that algorithm survive GC while the rebuilt graph has forgotten them — Predecessors permanently omits those manifests"))
	}
	if n == 0 {
		c.OK(R, "~/content/oci|gc-knows-every-digest-algorithm", token.NoPos, "the OCI store has no algorithm filter (every directory is swept or none)")
	}
}

// c07StringSet: the constant strings fn compares the subject with, in any of
// the forms switch/if comparisons, lookup in a package-level map literal
// (`table[x]`, keys whose value is not the constant false), slices.Contains
// over a package-level slice literal, or a call of an in-module function that
// does one of these with the subject as its argument.
func c07StringSet(fn *ssa.Function, isSubject func(v ssa.Value) bool, depth int) []string {
	set := map[string]bool{}
	for _, s := range StringConstsComparedWith(fn, isSubject) {
		set[s] = true
	}
	globalOf := func(v ssa.Value) *ssa.Global {
		u, ok := strip(v).(*ssa.UnOp)
		if !ok || u.Op != token.MUL {
			return nil
		}
		g, _ := u.X.(*ssa.Global)
		return g
	}
	AllInstrs(fn, func(in ssa.Instruction) {
		switch x := in.(type) {
		case *ssa.Lookup:
			if g := globalOf(x.X); g != nil && isSubject(x.Index) {
				for _, k := range c07GlobalLiteralStrings(g) {
					set[k] = true
				}
			}
		case *ssa.Call:
			n := CalleeName(x)
			if (n == "slices.Contains" || n == "slices.Index") && len(x.Call.Args) == 2 && isSubject(x.Call.Args[1]) {
				if g := globalOf(x.Call.Args[0]); g != nil {
					for _, k := range c07GlobalLiteralStrings(g) {
						set[k] = true
					}
				}
			}
			if h := StaticCallee(x); h != nil && inModule(h) && len(h.Blocks) > 0 && depth < 2 {
				for i, a := range x.Call.Args {
					if isSubject(a) && i < len(h.Params) {
						p := h.Params[i]
						for _, k := range c07StringSet(h, func(v ssa.Value) bool { return strip(v) == ssa.Value(p) }, depth+1) {
							set[k] = true
						}
					}
				}
			}
		}
	})
	var out []string
	for k := range set {
		out = append(out, k)
	}
	sort.Strings(out)
	return out
}

// c07GlobalLiteralStrings: the constant string keys (map literal) or elements
// (slice/array literal) a package-level variable is initialised with.
func c07GlobalLiteralStrings(g *ssa.Global) []string {
	init := g.Pkg.Func("init")
	if init == nil {
		return nil
	}
	var out []string
	AllInstrs(init, func(in ssa.Instruction) {
		st, ok := in.(*ssa.Store)
		if !ok || st.Addr != ssa.Value(g) {
			return
		}
		switch v := st.Val.(type) {
		case *ssa.MakeMap:
			for _, r := range *v.Referrers() {
				mu, ok := r.(*ssa.MapUpdate)
				if !ok || mu.Map != ssa.Value(v) {
					continue
				}
				if k, isK := mu.Value.(*ssa.Const); isK && k.Value != nil && k.Value.String() == "false" {
					continue
				}
				if s, ok := constString(mu.Key); ok {
					out = append(out, s)
				}
			}
		case *ssa.Slice:
			if a, ok := v.X.(*ssa.Alloc); ok {
				for _, r := range *a.Referrers() {
					if ia, ok := r.(*ssa.IndexAddr); ok {
						for _, r2 := range *ia.Referrers() {
							if s2, ok := r2.(*ssa.Store); ok && s2.Addr == ssa.Value(ia) {
								if s, ok := constString(s2.Val); ok {
									out = append(out, s)
								}
							}
						}
					}
				}
			}
		}
	})
	return out
}
