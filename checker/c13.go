package main

// C13 — a remote Repository is a faithful, spec-conforming view.
// R1 no success on an unexpected HTTP status; R2 response consistency checks
// (length, media type, digest) gate every success path; Seek/Read offset
// accounting in httputil.readSeekCloser.

import (
	"fmt"
	"go/token"
	"go/types"
	"sort"
	"strings"

	"golang.org/x/tools/go/ssa"
)

func init() {
	register(&propDef{
		ID: "C13",
		Explain: "Decided: (R1) in every function of registry/remote that performs an HTTP exchange (a call yielding (*http.Response, error), " +
			"16 today) every path from the exchange to a return with a possibly-nil error takes an edge on which resp.StatusCode equals a status the " +
			"distribution spec assigns to that request method (GET/HEAD 200, DELETE 202, PUT 201, POST 202, mount POST 201|202, referrers probe 200|404); " +
			"(R2) the response-consistency checks gate success: Content-Length against the descriptor size and the Docker-Content-Digest verification in the " +
			"blob and manifest Fetch, media type in the manifest Fetch, known length and digest agreement in the descriptor generators, digest verification after " +
			"manifest PUT, DELETE and a 201 mount, the verifier itself rejects unparsable and unequal digests, every such verdict is propagated; " +
			"readSeekCloser.Seek succeeds after a new request only on 206 and records the new offset, Read adds the bytes read. " +
			"(R4) every request of registry/remote has a constant method and a URL that comes from a URL builder of the package, the previous page's link or resp.Location(); RawQuery is only ever replaced by the re-encoding of the same URL's own Query() (existing parameters kept); the upload-completion PUT sets digest = expected.Digest on the Location's query before sending. NOT decided (not applicable to static analysis): byte fidelity of fetched content, conformance of every emitted request to the spec grammar, " +
			"behaviour against all registry capability profiles and histories.",
		Run:     runC13,
		Mutants: c13Mutants,
	})
}

// c13CoverageHook / c15CoverageHook: rules added by the coverage review (c13_cov.go).
var c13CoverageHook, c15CoverageHook func(c *Ctx)

func runC13(c *Ctx) {
	if c13CoverageHook != nil {
		defer c13CoverageHook(c)
	}
	c13R1(c)
	c13SuccessNeedsExchange(c)
	c13R2(c)
	c13Seek(c)
	c13R3(c)
	c13R4(c)
}

// c13AllowedStatus is the frozen exchange table: request method (+ role) →
// statuses after which the function may report success.
func c13AllowedStatus(fn *ssa.Function, methods []string) (allowed []int64, role string, ok bool) {
	set := map[int64]bool{}
	role = strings.Join(methods, ",")
	for _, m := range methods {
		switch m {
		case "GET", "HEAD":
			set[200] = true
		case "DELETE":
			set[202] = true
		case "PUT":
			set[201] = true
		case "POST":
			set[202] = true
			if fn.Name() == "Mount" { // registry.Mounter.Mount: 201 = mounted, 202 = upload session opened
				set[201] = true
				role += "(mount)"
			}
		default:
			return nil, role, false
		}
	}
	// Referrers probe: the function that records the capability itself may
	// treat 404 as the answer "Referrers API absent".
	if len(methods) == 1 && methods[0] == "GET" && len(CallsTo(fn, "(*~/registry/remote.Repository).SetReferrersCapability")) > 0 {
		set[404] = true
		role += "(referrers-probe)"
	}
	for k := range set {
		allowed = append(allowed, k)
	}
	sort.Slice(allowed, func(i, j int) bool { return allowed[i] < allowed[j] })
	return allowed, role, true
}

type c13Exchange struct {
	fn      *ssa.Function
	site    ssa.CallInstruction
	resp    map[ssa.Value]bool // aliases of the response
	status  map[ssa.Value]bool // loads of resp.StatusCode
	tests   *c13IntTests
	allowed []int64
	role    string
	key     string
}

// c13Exchanges discovers the HTTP exchanges of package rel (excluding the
// forwarding wrappers, which hand the response on unexamined).
func c13Exchanges(c *Ctx, rule, rel string) []*c13Exchange {
	var out []*c13Exchange
	for _, f := range c.P.FuncsOfPkg(rel) {
		if c13IsForwarder(f) {
			continue
		}
		n := 0
		for _, site := range c13SendSites(f) {
			n++
			ex := &c13Exchange{fn: f, site: site}
			ex.key = fmt.Sprintf("%s|%s#%d", FnName(f), CalleeName(site), n)
			resp := ResultOf(site, 0)
			if resp == nil {
				c.Violation(rule, ex.key, site.Pos(), "the response of the exchange is discarded: its status is never examined")
				continue
			}
			ex.resp = Aliases(resp)
			ex.status = c13FieldLoads(f, c13PkgHTTP, "Response", "StatusCode", func(b ssa.Value) bool { return ex.resp[b] })
			ex.tests = c13TestsOf(f, ex.status)
			out = append(out, ex)
		}
	}
	return out
}

func (ex *c13Exchange) eqEdges(ks ...int64) []Edge {
	var out []Edge
	for _, k := range ks {
		out = append(out, ex.tests.eq[k]...)
	}
	return out
}

// helperExaminesStatus: the response is handed to an in-module helper that
// reads StatusCode itself (a shape this rule does not follow).
func (ex *c13Exchange) helperExaminesStatus() string {
	for v := range ex.resp {
		refs := v.Referrers()
		if refs == nil {
			continue
		}
		for _, r := range *refs {
			call, ok := r.(ssa.CallInstruction)
			if !ok {
				continue
			}
			g := StaticCallee(call)
			if g == nil || !inModule(g) || len(g.Blocks) == 0 {
				continue
			}
			// the error-response parser reads the status to report it, not to accept it
			if ErrResultIndex(g.Signature) == 0 && g.Signature.Results().Len() == 1 {
				nonNil := true
				for _, a := range RetAtoms(g, 0) {
					if ErrNilStatus(a.Val, 1) != NonNil {
						nonNil = false
					}
				}
				if nonNil {
					continue
				}
			}
			if len(c13FieldLoads(g, c13PkgHTTP, "Response", "StatusCode", nil)) > 0 {
				return FnName(g)
			}
		}
	}
	return ""
}

// ---------- facts about a response (usable across helper boundaries) ----------

func c13RespBase(resp map[ssa.Value]bool) func(ssa.Value) bool {
	return func(b ssa.Value) bool { return resp[b] }
}

// c13StatusFact: resp.StatusCode is known to equal one of ks.
func c13StatusFact(ks []int64) c13Fact {
	return c13Fact{ID: "status=" + c13Ints(ks), Use: func(fn *ssa.Function, resp map[ssa.Value]bool, bind map[ssa.Value]int64) ([]Edge, []ssa.Value) {
		t := c13TestsOfBound(fn, c13FieldLoads(fn, c13PkgHTTP, "Response", "StatusCode", c13RespBase(resp)), bind)
		var out []Edge
		for _, k := range ks {
			out = append(out, t.eq[k]...)
		}
		return out, nil
	}}
}

// c13LengthFact: resp.ContentLength is unknown (-1) or equals the Size of a descriptor of the function.
var c13LengthFact = c13Fact{ID: "length", Use: func(fn *ssa.Function, resp map[ssa.Value]bool, _ map[ssa.Value]int64) ([]Edge, []ssa.Value) {
	cl := c13FieldLoads(fn, c13PkgHTTP, "Response", "ContentLength", c13RespBase(resp))
	size := c13FieldLoads(fn, c13PkgOCI, "Descriptor", "Size", nil)
	class := func(cond ssa.Value) (bool, bool) {
		op, other, ok := c13CmpNorm(cond, cl)
		if !ok {
			return false, false
		}
		if size[other] {
			return op == token.EQL, op == token.NEQ
		}
		k, isC := c13ConstInt(other)
		if !isC {
			return false, false
		}
		switch { // edges on which the length is unknown (negative)
		case op == token.EQL && k < 0, op == token.LSS && k <= 0, op == token.LEQ && k < 0:
			return true, false
		case op == token.NEQ && k == -1, op == token.GEQ && k == 0, op == token.GTR && k == -1:
			return false, true
		}
		return false, false
	}
	return c13FactEdgesOfConds(fn, class), nil
}}

// c13MediaTypeFact: the parsed Content-Type of resp equals the MediaType of a descriptor of the function.
var c13MediaTypeFact = c13Fact{ID: "mediatype", Use: func(fn *ssa.Function, resp map[ssa.Value]bool, _ map[ssa.Value]int64) ([]Edge, []ssa.Value) {
	mt := map[ssa.Value]bool{}
	for _, p := range CallsTo(fn, "mime.ParseMediaType") {
		if r := ResultOf(p, 0); r != nil {
			for a := range Aliases(r) {
				mt[a] = true
			}
		}
	}
	want := c13FieldLoads(fn, c13PkgOCI, "Descriptor", "MediaType", nil)
	eq, _ := c13EqualEdges(fn, mt, want)
	return eq, nil
}}

// c13VerifiedFact: the digest verifier V accepted resp.
func c13VerifiedFact(V *ssa.Function) c13Fact {
	return c13Fact{ID: "verified", Use: func(fn *ssa.Function, resp map[ssa.Value]bool, _ map[ssa.Value]int64) ([]Edge, []ssa.Value) {
		var edges []Edge
		var direct []ssa.Value
		for _, v := range c13CallsToFn(fn, V) {
			if _, isCall := v.(*ssa.Call); !isCall || !c13RootsIn(v.Common().Args[0], resp) {
				continue
			}
			if e := ErrOf(v); e != nil {
				nilE, _, _ := NilTests(fn, Aliases(e))
				edges = append(edges, nilE...)
				direct = append(direct, e)
			}
		}
		return edges, direct
	}}
}

// c13CheckHelpers: functions of the package with a *http.Response parameter and
// the single result `error` that establish the fact for that parameter.
func c13CheckHelpers(p *Prog, fact c13Fact) map[*ssa.Function]int {
	out := map[*ssa.Function]int{}
	for _, h := range p.FuncsOfPkg(c13PkgRemote) {
		if !c13ResultsAre(h, [2]string{"", "error"}) {
			continue
		}
		for i, prm := range h.Params {
			if c13IsPtrTo(prm.Type(), c13PkgHTTP, "Response") && c13HelperEstablishes(h, i, fact, 2) {
				out[h] = i
			}
		}
	}
	return out
}

func c13R1(c *Ctx) {
	const R1 = "C13.R1.status-gates-success"
	c.Expect(R1, 16)
	exs := c13Exchanges(c, R1, c13PkgRemote)
	if len(exs) == 0 {
		c.LostAnchor(R1, "no HTTP exchange (call yielding (*http.Response, error)) found in ~/registry/remote")
		return
	}
	for _, ex := range exs {
		methods, ok := c13MethodsOfSite(ex.site, 3)
		if !ok {
			c.Undecided(R1, ex.key, ex.site.Pos(), "cannot resolve the request of this exchange to http.NewRequestWithContext with a constant method; the expected status cannot be looked up")
			continue
		}
		allowed, role, known := c13AllowedStatus(ex.fn, methods)
		if !known {
			c.Undecided(R1, ex.key, ex.site.Pos(), "request method "+role+" has no line in the frozen status table")
			continue
		}
		ex.allowed, ex.role = allowed, role
		b, i := c13AfterSite(ex.site)
		cutOK, direct := c13FactCut(ex.fn, ex.resp, c13StatusFact(allowed), 3)
		bad := c13SuccessEscapes(ex.fn, b, i, cutOK, direct)
		key := ex.key + "|" + role + "→" + c13Ints(allowed)
		if bad == nil {
			c.OK(R1, key, ex.site.Pos(), "every path from the exchange to a possibly-nil error return takes an edge resp.StatusCode == "+c13Ints(allowed))
			continue
		}
		if h := ex.helperExaminesStatus(); h != "" {
			c.Undecided(R1, key, bad.Ret.Pos(), "the response status is examined inside helper "+h+" in a way this rule cannot summarise (the helper does not return an error that is nil only for status "+c13Ints(allowed)+")")
			continue
		}
		if len(ex.tests.other) > 0 {
			c.Undecided(R1, key, bad.Ret.Pos(), fmt.Sprintf("a path reaches the return at %s with error %s without an equality test of resp.StatusCode against %s; the function compares the status in a shape other than ==/!= constant (at %s), which is not interpreted",
				c.P.Pos(bad.Ret.Pos()), describe(bad.Val), c13Ints(allowed), c.P.Pos(ex.tests.other[0].Pos())))
			continue
		}
		c.Violation(R1, key, bad.Ret.Pos(), fmt.Sprintf("after the %s exchange a path reaches the return at %s whose error is %s without having established resp.StatusCode == %s: an unexpected status would be reported as success",
			role, c.P.Pos(bad.Ret.Pos()), describe(bad.Val), c13Ints(allowed)))
	}
}

// c13AlwaysExchanges: every possibly-nil error return of fn lies behind an HTTP
// exchange: a send site of fn, or the nil-error edge (or the returned verdict)
// of an in-module callee that always exchanges.
func c13AlwaysExchanges(fn *ssa.Function, depth int, memo map[*ssa.Function]int) bool {
	if v, ok := memo[fn]; ok {
		return v == 1
	}
	memo[fn] = 0 // recursion guard: not (yet) known
	ok := c13SuccessWithoutExchange(fn, depth, memo) == nil
	if ok {
		memo[fn] = 1
	}
	return ok
}

// c13SuccessWithoutExchange returns a possibly-nil error return of fn that can
// be reached from entry without any exchange (nil if there is none).
func c13SuccessWithoutExchange(fn *ssa.Function, depth int, memo map[*ssa.Function]int) *c13Atom {
	if ErrResultIndex(fn.Signature) < 0 {
		return nil
	}
	ct := newCut().Calls(c13SendSites(fn))
	direct := map[ssa.Value]bool{}
	if depth > 0 {
		for _, ci := range Calls(fn, func(string) bool { return true }) {
			call, isCall := ci.(*ssa.Call)
			h := StaticCallee(ci)
			if !isCall || h == nil || h == fn || !inModule(h) || len(h.Blocks) == 0 || ErrResultIndex(h.Signature) < 0 {
				continue
			}
			if !c13AlwaysExchanges(h, depth-1, memo) {
				continue
			}
			if e := ErrOf(call); e != nil {
				al := Aliases(e)
				nilE, _, _ := NilTests(fn, al)
				ct.Edges(nilE...)
				for a := range al {
					direct[a] = true
				}
			}
		}
	}
	return c13SuccessEscapes(fn, fn.Blocks[0], 0, ct, direct)
}

// c13SuccessNeedsExchange: the state-changing / transfer operations of the two
// remote stores report success only after talking to the registry.
func c13SuccessNeedsExchange(c *Ctx) {
	const R = "C13.R1.success-needs-exchange"
	c.Expect(R, 7)
	ops := map[string]bool{"Mount": true, "Push": true, "PushReference": true, "Delete": true, "Tag": true}
	memo := map[*ssa.Function]int{}
	n := 0
	for _, acc := range []string{"Blobs", "Manifests"} {
		get := c.P.Fn(c13PkgRemote, "Repository."+acc)
		if get == nil {
			c.LostAnchor(R, "~/registry/remote.Repository."+acc)
			continue
		}
		var T *types.Named
		for _, a := range RetAtoms(get, 0) {
			if mi, ok := a.Val.(*ssa.MakeInterface); ok {
				if p, ok := types.Unalias(mi.X.Type()).(*types.Pointer); ok {
					T, _ = types.Unalias(p.Elem()).(*types.Named)
				}
			}
		}
		if T == nil {
			c.LostAnchor(R, "concrete store type returned by Repository."+acc)
			continue
		}
		ms := types.NewMethodSet(types.NewPointer(T))
		for i := 0; i < ms.Len(); i++ {
			obj, isFn := ms.At(i).Obj().(*types.Func)
			if !isFn || !ops[obj.Name()] {
				continue
			}
			m := c.P.SSA.FuncValue(obj)
			if m == nil || len(m.Blocks) == 0 {
				continue
			}
			n++
			bad := c13SuccessWithoutExchange(m, 4, memo)
			ok := bad == nil
			detail := "every success path performs at least one HTTP exchange with the registry (here or in a helper that always does)"
			if !ok {
				detail = fmt.Sprintf("the return at %s (error %s) reports success without any request to the registry: the result cannot reflect the registry's state", c.P.Pos(bad.Ret.Pos()), describe(bad.Val))
			}
			c.Check(R, FnName(m)+"|exchange-before-success", m.Pos(), ok, detail)
		}
	}
	if n == 0 {
		c.LostAnchor(R, "state-changing operations (Mount/Push/PushReference/Delete/Tag) of the remote stores")
	}
}

// ---------- R2 ----------

// c13Verifier: the function of registry/remote with signature
// func(*http.Response, digest.Digest) error (verifyContentDigest by role).
func c13Verifier(p *Prog) []*ssa.Function {
	return c13FuncsWhere(p, c13PkgRemote, func(f *ssa.Function) bool {
		ps := f.Signature.Params()
		return f.Parent() == nil && f.Signature.Recv() == nil && ps.Len() == 2 &&
			c13IsPtrTo(ps.At(0).Type(), c13PkgHTTP, "Response") && c13IsNamed(ps.At(1).Type(), c13PkgDigest, "Digest") &&
			c13ResultsAre(f, [2]string{"", "error"}) &&
			// it parses a digest (a generic status helper instantiated at digest.Digest has the same signature)
			len(CallsTo(f, c13PkgDigest+".Parse", "digest.Parse")) > 0
	})
}

// c13DescriptorGenerators: functions of registry/remote that build a
// descriptor from a response: param *http.Response, results (Descriptor, error).
func c13DescriptorGenerators(p *Prog) []*ssa.Function {
	return c13FuncsWhere(p, c13PkgRemote, func(f *ssa.Function) bool {
		if !(f.Parent() == nil && c13HasParam(f, c13PkgHTTP, "Response") &&
			c13ResultsAre(f, [2]string{c13PkgOCI, "Descriptor"}, [2]string{"", "error"})) {
			return false
		}
		// it builds the descriptor itself (a dispatcher choosing between a generator and Resolve is not one)
		builds := false
		AllInstrs(f, func(in ssa.Instruction) {
			if st, ok := in.(*ssa.Store); ok {
				if fa, ok := st.Addr.(*ssa.FieldAddr); ok && c13IsNamed(fa.X.Type(), c13PkgOCI, "Descriptor") {
					if n := c13FieldNameOf(fa.X.Type(), fa.Field); n == "Size" || n == "Digest" {
						builds = true
					}
				}
			}
		})
		return builds
	})
}

func c13R2(c *Ctx) {
	const (
		RV = "C13.R2.digest-verified"
		RL = "C13.R2.length-checked"
		RM = "C13.R2.mediatype-checked"
		RP = "C13.R2.verdict-propagated"
		RD = "C13.R2.verifier"
		RG = "C13.R2.generated-descriptor"
	)
	c.Expect(RV, 12)
	c.Expect(RL, 4)
	c.Expect(RM, 1)
	c.Expect(RP, 10) // 6 verifier calls + 4 generator calls; parse calls and helper calls come on top
	c.Expect(RD, 3)
	c.Expect(RG, 3)

	vs := c13Verifier(c.P)
	if len(vs) != 1 {
		c.LostAnchor(RV, fmt.Sprintf("digest verifier func(*http.Response, digest.Digest) error in ~/registry/remote (found %d)", len(vs)))
		return
	}
	V := vs[0]
	exs := c13Exchanges(c, RV, c13PkgRemote)
	exOf := map[*ssa.Function][]*c13Exchange{}
	for _, ex := range exs {
		exOf[ex.fn] = append(exOf[ex.fn], ex)
	}

	// --- the verifier itself
	c13VerifierBody(c, RD, V)

	// --- every call of the verifier gates the success paths of its status branch
	verified := c13VerifiedFact(V)
	checkers := c13CheckHelpers(c.P, verified)
	for _, f := range c.P.FuncsOfPkg(c13PkgRemote) {
		calls := c13CallsToFn(f, V)
		nDirect := len(calls)
		for h := range checkers {
			if h != f {
				calls = append(calls, c13CallsToFn(f, h)...)
			}
		}
		for n, v := range calls {
			key := fmt.Sprintf("%s|verify#%d", FnName(f), n+1)
			respArg := v.Common().Args[0]
			if n >= nDirect {
				respArg = v.Common().Args[checkers[StaticCallee(v)]]
				key = fmt.Sprintf("%s|verify-via:%s", FnName(f), FnName(StaticCallee(v)))
			}
			if _, isCall := v.(*ssa.Call); !isCall {
				c.Violation(RV, key, v.Pos(), "the digest verification is deferred or run in a goroutine: its verdict cannot gate the result")
				continue
			}
			// first argument must be the response under examination, second the expected digest of the caller
			verr := ErrOf(v)
			if verr == nil {
				c.Violation(RV, key, v.Pos(), "the verdict of the digest verification is discarded")
				continue
			}
			al := Aliases(verr)
			nilE, _, _ := NilTests(f, al)
			cutV := newCut().Edges(nilE...)
			// start points: the status edges that lead to the verification; entry when the function performs no exchange
			type start struct {
				b    *ssa.BasicBlock
				i    int
				what string
			}
			var starts []start
			for _, ex := range exOf[f] {
				if !c13RootsIn(respArg, ex.resp) {
					continue
				}
				for k, es := range ex.tests.eq {
					for _, e := range es {
						// e leads to v: v reachable from e.To, and e is one of the accepted-status edges
						if reach(e.To, 0, v.(ssa.Instruction), nil) && MustPassBetween(ex.site.(ssa.Instruction), v.(ssa.Instruction), newCut().Edges(es...)) {
							starts = append(starts, start{e.To, 0, "status " + itoa64(k)})
						}
					}
				}
			}
			if len(exOf[f]) == 0 {
				starts = append(starts, start{f.Blocks[0], 0, "entry"})
			}
			if len(starts) == 0 {
				// not under a recognisable status edge: demand it of every success path after the exchange
				for _, ex := range exOf[f] {
					b, i := c13AfterSite(ex.site)
					starts = append(starts, start{b, i, "the exchange"})
				}
			}
			ok := true
			detail := ""
			for _, s := range starts {
				if bad := c13SuccessEscapes(f, s.b, s.i, cutV, al); bad != nil {
					ok = false
					detail = fmt.Sprintf("from %s a path reaches the return at %s (error %s) without a successful Docker-Content-Digest verification: a response whose digest header contradicts the request would be accepted",
						s.what, c.P.Pos(bad.Ret.Pos()), describe(bad.Val))
				}
			}
			c.Check(RV, key, v.Pos(), ok, ifelse(ok, "every success path of the status branch passes the nil edge of the verification (or returns its verdict)", detail))
			// the expected digest is the caller's: derives from a parameter of f
			if n < nDirect {
				c13ExpectedFromParam(c, RV, key, f, v)
			} else {
				r := c13ErrFlow(v, ErrFlowOpts{})
				c.Check(RP, key, v.Pos(), r.OK, r.How+r.Detail)
			}
		}
	}

	// --- Content-Length / media type in the content fetchers:
	// functions with a GET exchange, a Descriptor parameter and results (io.ReadCloser, error)
	for _, ex := range exs {
		f := ex.fn
		if !c13HasParam(f, c13PkgOCI, "Descriptor") || !c13ResultsAre(f, [2]string{"io", "ReadCloser"}, [2]string{"", "error"}) {
			continue
		}
		b, i := c13AfterSite(ex.site)
		cutL, dirL := c13FactCut(f, ex.resp, c13LengthFact, 3)
		bad := c13SuccessEscapes(f, b, i, cutL, dirL)
		key := FnName(f) + "|Content-Length~target.Size"
		cl := c13FieldLoads(f, c13PkgHTTP, "Response", "ContentLength", c13RespBase(ex.resp))
		switch {
		case bad == nil:
			c.OK(RL, key, ex.site.Pos(), "every success path establishes ContentLength == -1 or ContentLength == target.Size")
		case len(cl) > 0 && len(c13TestsOf(f, cl).other) > 0:
			c.Undecided(RL, key, bad.Ret.Pos(), "Content-Length is compared in a shape that is not interpreted (neither ==/!= against the descriptor size nor a sign test)")
		default:
			c.Violation(RL, key, bad.Ret.Pos(), fmt.Sprintf("a path reaches the return at %s (error %s) without comparing resp.ContentLength with the requested descriptor's Size: a body of the wrong length is handed back",
				c.P.Pos(bad.Ret.Pos()), describe(bad.Val)))
		}
		// media type: where the Content-Type of the response is parsed (manifests), in the function or a helper it hands the response to
		isPM := func(n string, _ ssa.CallInstruction) bool { return n == "mime.ParseMediaType" }
		parses := len(CallsTo(f, "mime.ParseMediaType")) > 0
		hcalls, _ := c13RespParamCalls(f, ex.resp)
		for _, hc := range hcalls {
			if reachesCall(StaticCallee(hc), 2, isPM) {
				parses = true
			}
		}
		if !parses {
			continue
		}
		cutM, dirM := c13FactCut(f, ex.resp, c13MediaTypeFact, 3)
		badM := c13SuccessEscapes(f, b, i, cutM, dirM)
		keyM := FnName(f) + "|Content-Type~target.MediaType"
		if badM == nil {
			c.OK(RM, keyM, ex.site.Pos(), "every success path establishes parsed Content-Type == target.MediaType")
		} else {
			c.Violation(RM, keyM, badM.Ret.Pos(), fmt.Sprintf("a path reaches the return at %s without the parsed Content-Type having been found equal to target.MediaType", c.P.Pos(badM.Ret.Pos())))
		}
		for _, p := range CallsTo(f, "mime.ParseMediaType") {
			r := c13ErrFlow(p, ErrFlowOpts{})
			c.Check(RP, FnName(f)+"|mime.ParseMediaType", p.Pos(), r.OK, r.How+r.Detail)
		}
	}

	// --- descriptor generators
	gens := c13DescriptorGenerators(c.P)
	if len(gens) < 2 {
		c.LostAnchor(RG, fmt.Sprintf("descriptor generators func(*http.Response, …) (Descriptor, error) in ~/registry/remote (found %d, want 2)", len(gens)))
	}
	for _, g := range gens {
		c13Generator(c, RL, RG, RP, g, V)
	}

	// --- verdict propagation: every call of the verifier / a generator has its error surfaced
	targets := append([]*ssa.Function{V}, gens...)
	for _, f := range c.P.FuncsOfPkg(c13PkgRemote) {
		for _, t := range targets {
			for n, call := range c13CallsToFn(f, t) {
				r := c13ErrFlow(call, ErrFlowOpts{})
				c.Check(RP, fmt.Sprintf("%s|%s#%d", FnName(f), FnName(t), n+1), call.Pos(), r.OK, r.How+r.Detail)
			}
		}
	}
}

// c13ExpectedFromParam: the digest handed to the verifier comes from the
// caller's own input (a parameter), not from the response.
func c13ExpectedFromParam(c *Ctx, rule, key string, f *ssa.Function, v ssa.CallInstruction) {
	arg := v.Common().Args[1]
	fromParam := false
	fromResp := false
	var walk func(x ssa.Value, d int)
	seen := map[ssa.Value]bool{}
	walk = func(x ssa.Value, d int) {
		if d > 8 || seen[x] {
			return
		}
		seen[x] = true
		for _, r := range Roots(x) {
			switch u := r.(type) {
			case *ssa.Parameter:
				if c13IsPtrTo(u.Type(), c13PkgHTTP, "Response") {
					fromResp = true
				} else {
					fromParam = true
				}
			case *ssa.UnOp:
				if u.Op == token.MUL {
					switch a := u.X.(type) {
					case *ssa.FieldAddr:
						walk(a.X, d+1)
					case *ssa.Alloc:
						// struct-typed local copy of a parameter
						for _, s := range storesTo(a) {
							walk(s.Val, d+1)
						}
					}
				}
			case *ssa.FieldAddr:
				walk(u.X, d+1)
			case *ssa.Alloc:
				for _, s := range storesTo(u) {
					walk(s.Val, d+1)
				}
			case *ssa.Field:
				walk(u.X, d+1)
			case *ssa.Extract:
				if call, ok := u.Tuple.(*ssa.Call); ok {
					if c13IsSend(call) {
						fromResp = true
					}
					for _, a := range call.Call.Args {
						walk(a, d+1)
					}
				}
			case *ssa.Call:
				for _, a := range u.Call.Args {
					walk(a, d+1)
				}
			}
		}
	}
	walk(arg, 0)
	ok := fromParam && !fromResp
	c.Check(rule, key+"|expected-is-callers", v.Pos(), ok,
		ifelse(ok, "the expected digest derives from the function's own parameters", "the digest the response is verified against does not derive (only) from the caller's input"))
}

// c13VerifierBody: a present header must parse, and must equal the expectation.
func c13VerifierBody(c *Ctx, rule string, V *ssa.Function) {
	vn := FnName(V)
	parses := CallsTo(V, c13PkgDigest+".Parse", "digest.Parse")
	if len(parses) != 1 {
		c.LostAnchor(rule, fmt.Sprintf("%s: exactly one digest.Parse of the header value (found %d)", vn, len(parses)))
		return
	}
	p := parses[0]
	hdr := c13AliasSet(p.Common().Args[0])
	zero, _ := c13LenZeroEdges(V, hdr)
	parsed := c13AliasSet(ResultOf(p, 0))
	expected := map[ssa.Value]bool{}
	for _, prm := range V.Params {
		if c13IsNamed(prm.Type(), c13PkgDigest, "Digest") {
			for a := range Aliases(prm) {
				expected[a] = true
			}
		}
	}
	eq, _ := c13EqualEdges(V, parsed, expected)
	// header must come from the response parameter
	hdrOK := false
	for _, r := range Roots(p.Common().Args[0]) {
		if call, ok := r.(*ssa.Call); ok && CalleeName(call) == "(net/http.Header).Get" {
			if s, ok := constString(call.Call.Args[1]); ok && strings.EqualFold(s, "Docker-Content-Digest") {
				hdrOK = true
			}
		}
	}
	c.Check(rule, vn+"|reads-Docker-Content-Digest", p.Pos(), hdrOK, "the verified value is resp.Header.Get(\"Docker-Content-Digest\")")
	bad := c13SuccessEscapes(V, V.Blocks[0], 0, newCut().Edges(zero...).Edges(eq...), nil)
	c.Check(rule, vn+"|nil-only-if-absent-or-equal", V.Pos(), bad == nil && len(eq) > 0,
		ifelse(bad == nil && len(eq) > 0, "every nil return passes `header absent` or `parsed digest == expected`",
			"the verifier can return nil although the Docker-Content-Digest header is present and was not found equal to the expected digest"))
	r := c13ErrFlow(p, ErrFlowOpts{})
	c.Check(rule, vn+"|parse-failure-is-error", p.Pos(), r.OK, r.How+r.Detail)
}

// c13IsHeaderDigest: r is the digest parsed from a response header: result 0
// of digest.Parse, or of an in-module helper all of whose non-empty results are.
func c13IsHeaderDigest(r ssa.Value, depth int) bool {
	ex, ok := r.(*ssa.Extract)
	if !ok || ex.Index != 0 {
		return false
	}
	call, ok := ex.Tuple.(*ssa.Call)
	if !ok {
		return false
	}
	if n := CalleeName(call); n == c13PkgDigest+".Parse" || n == "digest.Parse" {
		for _, a := range Roots(call.Call.Args[0]) {
			if g, isCall := a.(*ssa.Call); isCall && CalleeName(g) == "(net/http.Header).Get" {
				return true
			}
		}
		return false
	}
	h := StaticCallee(call)
	return h != nil && depth > 0 && inModule(h) && len(h.Blocks) > 0 && c13HasParam(h, c13PkgHTTP, "Response") && c13ReturnsHeaderDigest(h, depth-1)
}

func c13ReturnsHeaderDigest(h *ssa.Function, depth int) bool {
	if h.Signature.Results().Len() == 0 || !c13IsNamed(h.Signature.Results().At(0).Type(), c13PkgDigest, "Digest") {
		return false
	}
	some := false
	for _, a := range RetAtoms(h, 0) {
		if s, isConst := constString(a.Val); isConst && s == "" {
			continue
		}
		if _, isZero := a.Val.(zeroMarker); isZero {
			continue
		}
		if !c13IsHeaderDigest(a.Val, depth) {
			return false
		}
		some = true
	}
	return some
}

// c13Generator: descriptor built from a response: known length; digest agreement.
func c13Generator(c *Ctx, RL, RG, RP string, g, V *ssa.Function) {
	gn := FnName(g)
	var resp *ssa.Parameter
	for _, p := range g.Params {
		if c13IsPtrTo(p.Type(), c13PkgHTTP, "Response") {
			resp = p
		}
	}
	respAl := Aliases(resp)
	cl := c13FieldLoads(g, c13PkgHTTP, "Response", "ContentLength", func(b ssa.Value) bool { return respAl[b] })
	t := c13TestsOf(g, cl)
	bad := c13SuccessEscapes(g, g.Blocks[0], 0, newCut().Edges(t.ge0...), nil)
	c.Check(RL, gn+"|unknown-length-rejected", g.Pos(), bad == nil && len(t.ge0) > 0,
		ifelse(bad == nil && len(t.ge0) > 0, "every success path has established resp.ContentLength != -1",
			"a descriptor can be generated from a response of unknown length (Size would be -1)"))

	if len(c13CallsToFn(g, V)) > 0 {
		return // digest agreement is delegated to the verifier (checked under digest-verified)
	}
	// self-contained digest logic (manifests): sources of the content digest
	isRefDigest := func(r ssa.Value) bool {
		ex, ok := r.(*ssa.Extract)
		if !ok || ex.Index != 0 {
			return false
		}
		call, ok := ex.Tuple.(*ssa.Call)
		return ok && CalleeName(call) == "(~/registry.Reference).Digest"
	}
	isServerDigest := func(r ssa.Value) bool { return c13IsHeaderDigest(r, 3) }
	var calc []ssa.CallInstruction
	for _, call := range Calls(g, func(string) bool { return true }) {
		h := StaticCallee(call)
		if h == nil || !inModule(h) || !c13HasParam(h, c13PkgHTTP, "Response") {
			continue
		}
		if c13ResultsAre(h, [2]string{c13PkgDigest, "Digest"}, [2]string{"", "error"}) && !c13ReturnsHeaderDigest(h, 2) {
			calc = append(calc, call)
		}
	}
	isCalc := func(r ssa.Value) bool {
		ex, ok := r.(*ssa.Extract)
		if !ok || ex.Index != 0 {
			return false
		}
		for _, k := range calc {
			if ex.Tuple == k.Value() {
				return true
			}
		}
		return false
	}
	refVals := c13ValuesWithRoot(g, isRefDigest)
	srvVals := c13ValuesWithRoot(g, isServerDigest)
	if len(refVals) == 0 || len(srvVals) == 0 {
		c.LostAnchor(RG, gn+": client digest (Reference.Digest) and server digest (digest.Parse of the header) values")
		return
	}
	// (a) some digest source is confirmed present on every success path
	_, refNZ := c13LenZeroEdges(g, refVals)
	_, srvNZ := c13LenZeroEdges(g, srvVals)
	cutSrc := newCut().Edges(refNZ...).Edges(srvNZ...)
	for _, k := range calc {
		if e := ErrOf(k); e != nil {
			nilE, _, _ := NilTests(g, Aliases(e))
			cutSrc.Edges(nilE...)
		}
	}
	bad = c13SuccessEscapes(g, g.Blocks[0], 0, cutSrc, nil)
	c.Check(RG, gn+"|digest-source-present", g.Pos(), bad == nil,
		ifelse(bad == nil, "every success path has a non-empty client digest, a non-empty server digest, or a successfully calculated body digest",
			"a descriptor can be generated with no digest at all (no Docker-Content-Digest, no digest reference, body not hashed): Resolve by tag would hand back an empty digest"))
	// (b) client digest, when present, must equal the content digest
	content := c13ValuesWithRoot(g, func(r ssa.Value) bool { return isServerDigest(r) || isCalc(r) })
	eq, _ := c13EqualEdges(g, refVals, content)
	refZ, _ := c13LenZeroEdges(g, refVals)
	bad = c13SuccessEscapes(g, g.Blocks[0], 0, newCut().Edges(eq...).Edges(refZ...), nil)
	c.Check(RG, gn+"|client-digest-agrees", g.Pos(), bad == nil && len(eq) > 0,
		ifelse(bad == nil && len(eq) > 0, "every success path passes `no client digest` or `client digest == content digest`",
			"a descriptor can be generated although the digest the client asked for differs from the digest of the response"))
	// (c) the descriptor's Digest field is the content digest, Size is ContentLength
	okFields := true
	for _, a := range RetAtoms(g, 0) {
		ld, isLoad := a.Val.(*ssa.UnOp)
		if !isLoad {
			continue // zero descriptor on failure paths
		}
		al, isAlloc := ld.X.(*ssa.Alloc)
		if !isAlloc {
			continue
		}
		for _, r := range *al.Referrers() {
			fa, ok := r.(*ssa.FieldAddr)
			if !ok {
				continue
			}
			for _, r2 := range *fa.Referrers() {
				st, ok := r2.(*ssa.Store)
				if !ok {
					continue
				}
				switch c13FieldNameOf(fa.X.Type(), fa.Field) {
				case "Digest":
					if !content[st.Val] && !c13RootsIn(st.Val, content) {
						okFields = false
					}
				case "Size":
					if !cl[st.Val] {
						okFields = false
					}
				}
			}
		}
	}
	c.Check(RG, gn+"|fields", g.Pos(), okFields, ifelse(okFields, "Descriptor.Digest is the content digest and Descriptor.Size the response Content-Length", "the generated descriptor's Digest/Size are not the verified content digest / the response length"))
	for _, p := range CallsTo(g, c13PkgDigest+".Parse", "digest.Parse") {
		r := c13ErrFlow(p, ErrFlowOpts{})
		c.Check(RP, gn+"|digest.Parse", p.Pos(), r.OK, r.How+r.Detail)
	}
	for _, call := range Calls(g, func(string) bool { return true }) {
		h := StaticCallee(call)
		if h == nil || !inModule(h) || len(h.Blocks) == 0 || !c13ReturnsHeaderDigest(h, 2) || ErrResultIndex(h.Signature) < 0 {
			continue
		}
		r := c13ErrFlow(call, ErrFlowOpts{})
		c.Check(RP, gn+"|"+FnName(h), call.Pos(), r.OK, r.How+r.Detail)
		for _, p := range CallsTo(h, c13PkgDigest+".Parse", "digest.Parse") {
			r := c13ErrFlow(p, ErrFlowOpts{})
			c.Check(RP, FnName(h)+"|digest.Parse", p.Pos(), r.OK, r.How+r.Detail)
		}
	}
	for _, k := range calc {
		r := c13ErrFlow(k, ErrFlowOpts{})
		c.Check(RP, gn+"|"+CalleeName(k), k.Pos(), r.OK, r.How+r.Detail)
	}
}

// ---------- R3 routing agreement ----------

func c13IsStrSlice(t types.Type) bool {
	sl, ok := types.Unalias(t).Underlying().(*types.Slice)
	return ok && types.Identical(sl.Elem(), types.Typ[types.String])
}

// c13ConsultedLists: the []string values of fn whose elements are compared
// with a descriptor's MediaType: ranged slices whose element is compared, and
// first arguments of slices.Contains(list, desc.MediaType).
func c13ConsultedLists(fn *ssa.Function) []ssa.Value {
	mt := c13FieldLoads(fn, c13PkgOCI, "Descriptor", "MediaType", nil)
	var out []ssa.Value
	for _, call := range Calls(fn, func(n string) bool { return n == "slices.Contains" }) {
		if a := call.Common().Args; len(a) == 2 && mt[a[1]] && c13IsStrSlice(a[0].Type()) {
			out = append(out, a[0])
		}
	}
	for _, l := range Loops(fn) {
		ranged, idx, _, _, ok := l.RangeIndex()
		if !ok || !c13IsStrSlice(ranged.Type()) {
			continue
		}
		// element loads of this loop compared with the media type
		compared := false
		AllInstrs(fn, func(in ssa.Instruction) {
			bo, isBin := in.(*ssa.BinOp)
			if !isBin || (bo.Op != token.EQL && bo.Op != token.NEQ) || !l.Contains(bo) {
				return
			}
			for _, pair := range [][2]ssa.Value{{bo.X, bo.Y}, {bo.Y, bo.X}} {
				if !mt[pair[0]] {
					continue
				}
				for _, r := range Roots(pair[1]) {
					if ld, isLoad := r.(*ssa.UnOp); isLoad {
						if ia, isIA := ld.X.(*ssa.IndexAddr); isIA && ia.X == ranged {
							compared = true
						}
					}
				}
			}
		})
		_ = idx
		if compared {
			out = append(out, ranged)
		}
	}
	return out
}

// c13DefaultsSeen: default-list globals found behind normalising helpers (reset by c13R3).
var c13DefaultsSeen []*ssa.Global

// c13ListsFromOption: every consulted list of fn is the option (a value of
// opt) or a package-level default used only behind len(option) == 0, and the
// option itself is consulted.  "" when fine, else the reason.
func c13ListsFromOption(fn *ssa.Function, opt map[ssa.Value]bool) string {
	lists := c13ConsultedLists(fn)
	if len(lists) == 0 {
		return "no media-type list is consulted"
	}
	empty := c13FactEdgesOfConds(fn, c13EmptyStringClass(opt)) // len(opt) == 0 edges (the class handles len(x) tests)
	sawOpt, sawDefault := false, false
	for _, l := range lists {
		for _, lf := range c13Leaves(l) {
			v := strip(lf.Val)
			if opt[v] || opt[lf.Val] {
				sawOpt = true
				continue
			}
			// a normalising helper: returns its argument, or a package default only when the argument is empty
			if call, isCall := v.(*ssa.Call); isCall {
				if N := StaticCallee(call); N != nil && inModule(N) && len(N.Blocks) > 0 && len(N.Params) == len(call.Call.Args) {
					okN := false
					for i, a := range call.Call.Args {
						if !opt[a] {
							continue
						}
						pal := Aliases(N.Params[i])
						emptyN := c13FactEdgesOfConds(N, c13EmptyStringClass(pal))
						okN = true
						for _, ra := range RetAtoms(N, 0) {
							rv := strip(ra.Val)
							if pal[rv] {
								sawOpt = true
								continue
							}
							if ld, isLoad := rv.(*ssa.UnOp); isLoad && ld.Op == token.MUL {
								if g, isG := ld.X.(*ssa.Global); isG && !c13AtomReach(N.Blocks[0], 0, ra, newCut().Edges(emptyN...)) {
									sawDefault = true
									c13DefaultsSeen = append(c13DefaultsSeen, g)
									continue
								}
							}
							okN = false
						}
					}
					if okN {
						continue
					}
				}
			}
			if ld, ok := v.(*ssa.UnOp); ok && ld.Op == token.MUL {
				if _, isG := ld.X.(*ssa.Global); isG {
					sawDefault = true
					// the default only where the option is empty
					var at ssa.Instruction
					if in, isInstr := l.(ssa.Instruction); isInstr {
						at = in
					}
					if at == nil {
						at = fn.Blocks[0].Instrs[0]
					}
					if len(lf.Edges) > 0 {
						if c13ChainReach(fn.Blocks[0], 0, lf.Edges, lf.Edges[0].To.Instrs[0], newCut().Edges(empty...)) {
							return "the default media-type list is consulted although the option is not empty"
						}
					} else if reach(fn.Blocks[0], 0, ld, newCut().Edges(empty...)) {
						return "the default media-type list is consulted although the option is not empty"
					}
					continue
				}
			}
			return "a media-type list other than the option or the package default is consulted (" + describe(v) + ")"
		}
	}
	if !sawOpt {
		return "the ManifestMediaTypes option is never consulted"
	}
	if !sawDefault {
		return "no default list is consulted when the option is empty"
	}
	return ""
}

func c13R3(c *Ctx) {
	const R3 = "C13.R3.routing-agreement"
	c.Expect(R3, 7)
	repoT := c.P.Named(c13PkgRemote, "Repository")
	if repoT == nil {
		c.LostAnchor(R3, "~/registry/remote.Repository")
		return
	}
	// the selector by role: method of *Repository taking a Descriptor, returning registry.BlobStore
	var sels []*ssa.Function
	for _, f := range c.P.FuncsOfPkg(c13PkgRemote) {
		if f.Parent() != nil || f.Signature.Recv() == nil || !c13IsNamed(f.Signature.Recv().Type(), c13PkgRemote, "Repository") {
			continue
		}
		ps := f.Signature.Params()
		if ps.Len() == 1 && c13IsNamed(ps.At(0).Type(), c13PkgOCI, "Descriptor") && c13ResultsAre(f, [2]string{"registry", "BlobStore"}) {
			sels = append(sels, f)
		}
	}
	if len(sels) != 1 {
		c.LostAnchor(R3, fmt.Sprintf("store selector func (r *Repository)(Descriptor) registry.BlobStore (found %d)", len(sels)))
		return
	}
	S := sels[0]
	sn := FnName(S)
	recv := Aliases(S.Params[0])
	optLoads := func(fn *ssa.Function, base func(ssa.Value) bool) map[ssa.Value]bool {
		return c13FieldLoads(fn, c13PkgRemote, "Repository", "ManifestMediaTypes", base)
	}
	opt := optLoads(S, func(b ssa.Value) bool { return recv[b] })
	// (a) the selector decides by the option: inline, or through a predicate handed the option
	why := ""
	var decide []Edge // edges on which the predicate said "manifest"
	var defaultsUsed []*ssa.Global
	c13DefaultsSeen = nil
	collectDefaults := func(fn *ssa.Function) {
		defaultsUsed = append(defaultsUsed, c13DefaultsSeen...)
		for _, l := range c13ConsultedLists(fn) {
			for _, lf := range c13Leaves(l) {
				if ld, ok := strip(lf.Val).(*ssa.UnOp); ok {
					if g, isG := ld.X.(*ssa.Global); isG {
						defaultsUsed = append(defaultsUsed, g)
					}
				}
			}
		}
	}
	if len(c13ConsultedLists(S)) > 0 {
		why = c13ListsFromOption(S, opt)
		collectDefaults(S)
	} else {
		why = "the selector consults no media-type list derived from the ManifestMediaTypes option"
		for _, ci := range Calls(S, func(string) bool { return true }) {
			call, isCall := ci.(*ssa.Call)
			P := StaticCallee(ci)
			if !isCall || P == nil || !inModule(P) || len(P.Blocks) == 0 || !c13ResultsAre(P, [2]string{"", "bool"}) && !(P.Signature.Results().Len() == 1 && types.Identical(P.Signature.Results().At(0).Type(), types.Typ[types.Bool])) {
				continue
			}
			hasDesc := false
			for _, a := range call.Call.Args {
				if c13IsNamed(a.Type(), c13PkgOCI, "Descriptor") {
					hasDesc = true
				}
			}
			if !hasDesc {
				continue
			}
			why = "the predicate " + FnName(P) + " the selector decides by is not given the ManifestMediaTypes option"
			for i, a := range call.Call.Args {
				if !opt[a] || i >= len(P.Params) {
					continue
				}
				why = c13ListsFromOption(P, Aliases(P.Params[i]))
				if why != "" {
					why = FnName(P) + ": " + why
				}
				collectDefaults(P)
				te, _ := BoolTests(S, Aliases(call))
				decide = append(decide, te...)
			}
		}
	}
	c.Check(R3, sn+"|selector-decides-by-option", S.Pos(), why == "", ifelse(why == "", "manifest or blob store is chosen by the ManifestMediaTypes option, falling back to the package default exactly when it is empty", why+": content pushed through Push/Fetch/Exists/Delete and content addressed by Tag/Resolve/FetchReference can end up in different stores"))
	// (b) both stores are reachable from the decision
	man, blob := false, false
	for _, a := range RetAtoms(S, 0) {
		for _, r := range Roots(a.Val) {
			if call, ok := r.(*ssa.Call); ok {
				switch CalleeName(call) {
				case "(*~/registry/remote.Repository).Manifests":
					man = true
					if len(decide) > 0 && c13AtomReach(S.Blocks[0], 0, a, newCut().Edges(decide...)) {
						man = false
					}
				case "(*~/registry/remote.Repository).Blobs":
					blob = true
				}
			}
		}
	}
	c.Check(R3, sn+"|selects-both-stores", S.Pos(), man && blob, ifelse(man && blob, "the manifest store is returned on the predicate's true edge, the blob store otherwise", "the selector does not return the manifest store exactly on the predicate's true edge and the blob store otherwise"))
	// (c) the content operations dispatch through the selector with their own descriptor
	for _, name := range []string{"Fetch", "Push", "Exists", "Delete"} {
		m := c.P.Fn(c13PkgRemote, "Repository."+name)
		if m == nil {
			c.LostAnchor(R3, "~/registry/remote.Repository."+name)
			continue
		}
		ok := false
		for _, ci := range Calls(m, func(string) bool { return true }) {
			if !ci.Common().IsInvoke() || ci.Common().Method.Name() != name {
				continue
			}
			for _, r := range Roots(ci.Common().Value) {
				sc, isCall := r.(*ssa.Call)
				if !isCall || StaticCallee(sc) != S {
					continue
				}
				for _, p := range m.Params {
					if c13IsNamed(p.Type(), c13PkgOCI, "Descriptor") && (c15SameStruct(sc.Call.Args[1], p) || sc.Call.Args[1] == ssa.Value(p)) {
						ok = true
					}
				}
			}
		}
		c.Check(R3, FnName(m)+"|dispatches-through-selector", m.Pos(), ok, ifelse(ok, "the operation runs on the store the selector picks for its own descriptor", "the operation does not run on the store chosen by the selector for its descriptor"))
	}
	// (d) the Accept header of reference operations is built from the same option with the same default list
	accs := c13FuncsWhere(c.P, c13PkgRemote, func(f *ssa.Function) bool {
		ps, rs := f.Signature.Params(), f.Signature.Results()
		if !(f.Parent() == nil && f.Signature.Recv() == nil && !f.Signature.Variadic() && ps.Len() == 1 && c13IsStrSlice(ps.At(0).Type()) && rs.Len() == 1 && types.Identical(rs.At(0).Type(), types.Typ[types.String])) {
			return false
		}
		// its result is used as the value of an Accept header somewhere in the package
		for _, g := range c.P.FuncsOfPkg(c13PkgRemote) {
			for _, set := range CallsTo(g, "(net/http.Header).Set", "(net/http.Header).Add") {
				if k, ok := constString(set.Common().Args[1]); ok && k == "Accept" {
					for _, r := range Roots(set.Common().Args[2]) {
						if call, isCall := r.(*ssa.Call); isCall && StaticCallee(call) == f {
							return true
						}
					}
				}
			}
		}
		return false
	})
	okAcc, whyAcc := len(accs) > 0, "no Accept-header builder func([]string) string found"
	nCalls := 0
	for _, A := range accs {
		for _, f := range c.P.FuncsOfPkg(c13PkgRemote) {
			for _, call := range c13CallsToFn(f, A) {
				nCalls++
				if !optLoads(f, nil)[call.Common().Args[0]] {
					okAcc, whyAcc = false, FnName(f)+" builds the Accept header from something other than the ManifestMediaTypes option"
				}
			}
		}
		// the default used when the option is empty is the join of the selector's default list
		for _, a := range RetAtoms(A, 0) {
			ld, isLoad := strip(a.Val).(*ssa.UnOp)
			if !isLoad {
				continue
			}
			g, isG := ld.X.(*ssa.Global)
			if !isG {
				continue
			}
			joined := false
			if initFn := g.Pkg.Func("init"); initFn != nil {
				AllInstrs(initFn, func(in ssa.Instruction) {
					st, ok := in.(*ssa.Store)
					if !ok || st.Addr != ssa.Value(g) {
						return
					}
					for _, r := range Roots(st.Val) {
						if jc, ok := r.(*ssa.Call); ok && CalleeName(jc) == "strings.Join" {
							for _, lr := range Roots(jc.Call.Args[0]) {
								if l2, ok := lr.(*ssa.UnOp); ok {
									for _, d := range defaultsUsed {
										if l2.X == ssa.Value(d) {
											joined = true
										}
									}
								}
							}
						}
					}
				})
			}
			if !joined {
				okAcc, whyAcc = false, "the default Accept header is not the join of the default media-type list the selector falls back to"
			}
		}
	}
	if nCalls == 0 {
		okAcc, whyAcc = false, "the Accept-header builder is never called"
	}
	c.Check(R3, sn+"|accept-header-from-same-lists", S.Pos(), okAcc, ifelse(okAcc, "manifest requests advertise the same option / default list the selector routes by", whyAcc))
}

// ---------- R4 request construction ----------

// c13IsURLBuilder: function of registry/remote (url.go) that renders a URL:
// func(plainHTTP bool, ref registry.Reference, …) string.
func c13IsURLBuilder(g *ssa.Function) bool {
	if g == nil || g.Parent() != nil || g.Signature.Recv() != nil || fnPkgPath(g) != pkgPath(c13PkgRemote) {
		return false
	}
	ps, rs := g.Signature.Params(), g.Signature.Results()
	if ps.Len() < 2 || rs.Len() != 1 || !types.Identical(rs.At(0).Type(), types.Typ[types.String]) {
		return false
	}
	return types.Identical(ps.At(0).Type(), types.Typ[types.Bool]) && c13IsNamed(ps.At(1).Type(), "registry", "Reference")
}

// c13ProgForURL: the program under analysis (set by c13R4) for caller look-ups.
var c13ProgForURL *Prog

// c13URLHelperBusy guards the helper recursion of c13URLSource.
var c13URLHelperBusy = map[*ssa.Function]bool{}

// c13HelperYieldsLocation: the call is to an in-module helper every non-empty
// string result of which is the response's Location (possibly with the port work-around).
func c13HelperYieldsLocation(u *ssa.Call) bool {
	h := StaticCallee(u)
	if h == nil || !inModule(h) || len(h.Blocks) == 0 || h == u.Parent() || c13URLHelperBusy[h] || h.Signature.Results().Len() == 0 ||
		!types.Identical(h.Signature.Results().At(0).Type(), types.Typ[types.String]) {
		return false
	}
	c13URLHelperBusy[h] = true
	defer delete(c13URLHelperBusy, h)
	all, n := true, 0
	for _, ra := range RetAtoms(h, 0) {
		if sv, isC := constString(ra.Val); isC && sv == "" {
			continue
		}
		n++
		k2, p2, u2 := c13URLSource(ra.Val)
		if u2 != nil || len(p2) > 0 || !(len(k2) == 1 && k2["location"]) {
			all = false
		}
	}
	return all && n > 0
}

// c13FieldSeen guards the field-store recursion of c13URLSource.
var c13FieldSeen = map[int]bool{}

// c13ParamIsURLBuilder: prm is a func-typed parameter and every call of its
// function in the package passes a URL builder (a function value, or again
// such a parameter) for it.
func c13ParamIsURLBuilder(prm *ssa.Parameter) bool {
	fn := prm.Parent()
	if c13ProgForURL == nil || fn == nil {
		return false
	}
	if _, isSig := types.Unalias(prm.Type()).Underlying().(*types.Signature); !isSig {
		return false
	}
	idx := -1
	for i, q := range fn.Params {
		if q == prm {
			idx = i
		}
	}
	callers := 0
	for _, g := range c13ProgForURL.FuncsOfPkg(c13PkgRemote) {
		for _, call := range c13CallsToFn(g, fn) {
			callers++
			for _, r := range Roots(call.Common().Args[idx]) {
				switch v := r.(type) {
				case *ssa.Function:
					if !c13IsURLBuilder(v) {
						return false
					}
				case *ssa.Parameter:
					if v == prm || !c13ParamIsURLBuilder(v) {
						return false
					}
				default:
					return false
				}
			}
		}
	}
	return callers > 0
}

// c13MapOfURLBuilders: m is a map (a local literal or a package-level table
// initialised once) every entry of which is a URL builder function.
func c13MapOfURLBuilders(m ssa.Value) bool {
	var updates []*ssa.MapUpdate
	collect := func(mk ssa.Value) {
		if mk.Referrers() == nil {
			return
		}
		for _, r := range *mk.Referrers() {
			if mu, ok := r.(*ssa.MapUpdate); ok && mu.Map == mk {
				updates = append(updates, mu)
			}
		}
	}
	for _, r := range Roots(m) {
		switch u := r.(type) {
		case *ssa.MakeMap:
			collect(u)
		case *ssa.UnOp: // load of a package-level table
			g, ok := u.X.(*ssa.Global)
			if !ok || u.Op != token.MUL {
				return false
			}
			stores := 0
			for _, fn := range []*ssa.Function{g.Pkg.Func("init")} {
				if fn == nil {
					continue
				}
				AllInstrs(fn, func(in ssa.Instruction) {
					if st, ok := in.(*ssa.Store); ok && st.Addr == ssa.Value(g) {
						stores++
						for _, sr := range Roots(st.Val) {
							if mk, ok := sr.(*ssa.MakeMap); ok {
								collect(mk)
							}
						}
					}
				})
			}
			if stores != 1 || c13ProgForURL == nil {
				return false
			}
			// the table is never written elsewhere
			for _, f := range c13ProgForURL.FuncsOfPkg(c13PkgRemote) {
				written := false
				AllInstrs(f, func(in ssa.Instruction) {
					switch x := in.(type) {
					case *ssa.Store:
						if x.Addr == ssa.Value(g) {
							written = true
						}
					case *ssa.MapUpdate:
						for _, mr := range Roots(x.Map) {
							if ld, ok := mr.(*ssa.UnOp); ok && ld.X == ssa.Value(g) {
								written = true
							}
						}
					}
				})
				if written {
					return false
				}
			}
		default:
			return false
		}
	}
	if len(updates) == 0 {
		return false
	}
	for _, mu := range updates {
		for _, vr := range Roots(mu.Value) {
			f, ok := strip(vr).(*ssa.Function)
			if !ok || !c13IsURLBuilder(f) {
				return false
			}
		}
	}
	return true
}

// c13URLSource classifies where a URL string comes from.
// "" = not recognised.
func c13URLSource(v ssa.Value) (kinds map[string]bool, params []*ssa.Parameter, unknown ssa.Value) {
	kinds = map[string]bool{}
	for _, r := range Roots(v) {
		switch u := r.(type) {
		case *ssa.Parameter:
			params = append(params, u)
			kinds["param"] = true
			continue
		case *ssa.Extract:
			if call, ok := u.Tuple.(*ssa.Call); ok && u.Index == 0 && c15IsPageFn(StaticCallee(call)) {
				kinds["next-link"] = true
				continue
			}
			if call, ok := u.Tuple.(*ssa.Call); ok && u.Index == 0 && c13HelperYieldsLocation(call) {
				kinds["location"] = true
				continue
			}
			// the link handed back by a page fetcher parameter of a generic pagination driver
			if call, ok := u.Tuple.(*ssa.Call); ok && u.Index == 0 && !call.Call.IsInvoke() && StaticCallee(call) == nil {
				isFetcher := false
				for _, fr := range Roots(call.Call.Value) {
					if prm, isParam := fr.(*ssa.Parameter); isParam && c15IsFetcherType(prm.Type()) {
						isFetcher = true
					}
				}
				if isFetcher {
					kinds["next-link"] = true
					continue
				}
			}
		case *ssa.UnOp:
			// a string field of an unexported carrier struct (a paging cursor): every value ever stored into that field
			if fa, isFA := u.X.(*ssa.FieldAddr); isFA && u.Op == token.MUL && c13ProgForURL != nil && !c13FieldSeen[fa.Field*131+len(fa.X.Type().String())] {
				c13FieldSeen[fa.Field*131+len(fa.X.Type().String())] = true
				okField, n := true, 0
				for _, g := range c13ProgForURL.FuncsOfPkg(c13PkgRemote) {
					AllInstrs(g, func(in ssa.Instruction) {
						st, isStore := in.(*ssa.Store)
						if !isStore {
							return
						}
						f2, isFA2 := st.Addr.(*ssa.FieldAddr)
						if !isFA2 || f2.Field != fa.Field || !types.Identical(f2.X.Type(), fa.X.Type()) {
							return
						}
						n++
						k2, p2, u2 := c13URLSource(st.Val)
						if u2 != nil || len(p2) > 0 {
							okField = false
						}
						for k := range k2 {
							kinds[k] = true
						}
					})
				}
				delete(c13FieldSeen, fa.Field*131+len(fa.X.Type().String()))
				if okField && n > 0 {
					continue
				}
			}
		case *ssa.Call:
			if c13IsURLBuilder(StaticCallee(u)) {
				kinds["builder"] = true
				continue
			}
			// builder chosen at run time: every possible callee is a builder
			if StaticCallee(u) == nil && !u.Call.IsInvoke() {
				all := true
				n := 0
				for _, fr := range Roots(u.Call.Value) {
					n++
					if prm, isParam := fr.(*ssa.Parameter); isParam && c13ParamIsURLBuilder(prm) {
						continue // a func-typed parameter for which every caller passes a URL builder
					}
					if lk, isLookup := fr.(*ssa.Lookup); isLookup && c13MapOfURLBuilders(lk.X) {
						continue // picked from a table all of whose entries are URL builders
					}
					g, ok := fr.(*ssa.Function)
					if !ok || !c13IsURLBuilder(g) {
						all = false
					}
				}
				if all && n > 0 {
					kinds["builder"] = true
					continue
				}
			}
			if c13HelperYieldsLocation(u) {
				kinds["location"] = true
				continue
			}
			if CalleeName(u) == "(*net/url.URL).String" {
				fromLoc := true
				for _, lr := range Roots(u.Call.Args[0]) {
					ex, ok := lr.(*ssa.Extract)
					if !ok || ex.Index != 0 {
						fromLoc = false
						continue
					}
					lc, ok := ex.Tuple.(*ssa.Call)
					if !ok || CalleeName(lc) != "(*net/http.Response).Location" {
						fromLoc = false
					}
				}
				if fromLoc {
					kinds["location"] = true
					continue
				}
			}
		}
		return kinds, params, r
	}
	return kinds, params, nil
}

// c13QueryStores checks every store to (*url.URL).RawQuery in fn: the value
// stored must be (url.Values).Encode() of the Values obtained from the same
// URL's Query() — the query the URL already carries is kept, parameters are
// only set/added.  Returns the stores and, for an offending one, the reason.
// c13URLOwner: v is a load of the URL field of an *http.Request → that request.
func c13URLOwner(v ssa.Value) (req ssa.Value, ok bool) {
	{
		for _, r := range Roots(v) {
			ld, isLoad := r.(*ssa.UnOp)
			if !isLoad || ld.Op != token.MUL {
				return nil, false
			}
			fa, isFA := ld.X.(*ssa.FieldAddr)
			if !isFA || !c13IsNamed(fa.X.Type(), c13PkgHTTP, "Request") || c13FieldNameOf(fa.X.Type(), fa.Field) != "URL" {
				return nil, false
			}
			if req != nil && req != fa.X && !SameValue(req, fa.X) {
				return nil, false
			}
			req = fa.X
		}
	}
	return req, req != nil
}

func c13QueryStores(fn *ssa.Function) (stores []*ssa.Store, bad *ssa.Store, why string) {
	stores = c13FieldStores(fn, "net/url", "URL", "RawQuery", nil)
	for _, s := range stores {
		if w := c13QueryStoreOK(s, c13URLOwner); w != "" && bad == nil {
			bad, why = s, w
		}
	}
	return stores, bad, why
}

func c13QueryStoreOK(s *ssa.Store, urlOf func(ssa.Value) (ssa.Value, bool)) string {
	{
		dst, okDst := urlOf(s.Addr.(*ssa.FieldAddr).X)
		for _, rt := range Roots(s.Val) {
			enc, ok := rt.(*ssa.Call)
			if !ok || CalleeName(enc) != "(net/url.Values).Encode" {
				return "the query is replaced by " + describe(rt) + ", not by the encoding of the URL's own Query(): parameters the URL already carries are dropped"
			}
			for _, q := range Roots(enc.Call.Args[0]) {
				qc, ok := q.(*ssa.Call)
				if !ok || CalleeName(qc) != "(*net/url.URL).Query" {
					return "the encoded Values do not come from the URL's own Query(): parameters the URL already carries are dropped"
				}
				src, okSrc := urlOf(qc.Call.Args[0])
				if !okDst || !okSrc || (src != dst && !SameValue(src, dst)) {
					return "the Values encoded into RawQuery were taken from a different URL"
				}
			}
		}
	}
	return ""
}

func c13R4(c *Ctx) {
	const (
		RU = "C13.R4.request-url-provenance"
		RQ = "C13.R4.query-preserved"
		RD = "C13.R4.upload-digest-parameter"
	)
	c.Expect(RU, 10) // 16 requests on the pinned tree; request construction may be shared by several exchanges
	c.Expect(RQ, 2)  // the upload PUT and at least one page query (several page functions may share one helper)
	c.Expect(RD, 1)
	c13ProgForURL = c.P
	methods := map[string]bool{"GET": true, "HEAD": true, "PUT": true, "POST": true, "DELETE": true}
	for _, f := range c.P.FuncsOfPkg(c13PkgRemote) {
		fn := FnName(f)
		for n, nr := range CallsTo(f, "net/http.NewRequestWithContext", "net/http.NewRequest") {
			key := fmt.Sprintf("%s|request#%d", fn, n+1)
			mi, ui := 1, 2
			if CalleeName(nr) == "net/http.NewRequest" {
				mi, ui = 0, 1
			}
			m, isConst := constString(nr.Common().Args[mi])
			if !isConst || !methods[m] {
				c.Violation(RU, key, nr.Pos(), "the request method is not one of the constant methods of the distribution API")
				continue
			}
			kinds, params, unknown := c13URLSource(nr.Common().Args[ui])
			if unknown != nil {
				c.Violation(RU, key, nr.Pos(), "the request URL ("+describe(unknown)+") comes neither from a URL builder of the package, nor from the next-page link, nor from resp.Location()")
				continue
			}
			ok, why := true, ""
			// a URL handed in as parameter: every caller passes a builder result or the previous page's link
			for _, prm := range params {
				idx := -1
				for i, q := range f.Params {
					if q == prm {
						idx = i
					}
				}
				callers := 0
				var checkArg func(g *ssa.Function, arg ssa.Value, depth int)
				checkArg = func(g *ssa.Function, arg ssa.Value, depth int) {
					k2, p2, u2 := c13URLSource(arg)
					if u2 != nil || k2["location"] {
						ok, why = false, "caller "+FnName(g)+" passes a URL that is neither a builder result nor the previous page's link"
						return
					}
					// the caller's own parameter: a page fetcher (closure handed to a generic driver, which calls it with
					// the first URL it was given and then with the links the fetcher returns), or a driver's first-URL parameter
					for _, q := range p2 {
						if depth <= 0 {
							ok, why = false, "caller "+FnName(g)+" passes on a URL parameter whose origin is not followed further"
							return
						}
						qi := -1
						for i, x := range g.Params {
							if x == q {
								qi = i
							}
						}
						found := 0
						if g.Parent() != nil { // closure: where is it handed to, and how is it called there
							AllInstrs(g.Parent(), func(in ssa.Instruction) {
								dc, isCall := in.(ssa.CallInstruction)
								if !isCall {
									return
								}
								D := StaticCallee(dc)
								if D == nil || !inModule(D) || len(D.Blocks) == 0 {
									return
								}
								for j, a := range dc.Common().Args {
									mc, isMC := strip(a).(*ssa.MakeClosure)
									if !isMC || mc.Fn != g || j >= len(D.Params) {
										continue
									}
									dal := Aliases(D.Params[j])
									for _, ci := range Calls(D, func(string) bool { return true }) {
										if !ci.Common().IsInvoke() && dal[ci.Common().Value] && qi < len(ci.Common().Args) {
											found++
											ai := qi
											if ai < len(ci.Common().Args) {
												checkArg(D, ci.Common().Args[ai], depth-1)
											}
										}
									}
								}
							})
						}
						for _, h := range c.P.FuncsOfPkg(c13PkgRemote) {
							for _, call := range c13CallsToFn(h, g) {
								found++
								checkArg(h, call.Common().Args[qi], depth-1)
							}
						}
						if found == 0 {
							ok, why = false, "caller "+FnName(g)+" passes on a URL parameter for which no call was found"
						}
					}
				}
				for _, g := range c.P.FuncsOfPkg(c13PkgRemote) {
					for _, call := range c13CallsToFn(g, f) {
						callers++
						checkArg(g, call.Common().Args[idx], 3)
					}
				}
				if callers == 0 {
					ok, why = false, "the URL is a parameter and no caller in the package was found"
				}
			}
			var ks []string
			for k := range kinds {
				ks = append(ks, k)
			}
			sort.Strings(ks)
			c.Check(RU, key+"|"+m, nr.Pos(), ok, ifelse(ok, "constant method; URL from: "+strings.Join(ks, ","), why))

			// the upload-completion PUT: URL is the Location; the digest parameter is added to its query
			if kinds["location"] {
				req := c13AliasSet(ResultOf(nr, 0))
				var sets []ssa.CallInstruction
				for _, set := range CallsTo(f, "(net/url.Values).Set", "(net/url.Values).Add") {
					k, isK := constString(set.Common().Args[1])
					if !isK || k != "digest" {
						continue
					}
					// value: String() of the Digest field of the expected descriptor
					okVal := false
					for _, r := range Roots(set.Common().Args[2]) {
						if sc, isCall := r.(*ssa.Call); isCall && CalleeName(sc) == "(digest.Digest).String" {
							dl := c13FieldLoads(f, c13PkgOCI, "Descriptor", "Digest", nil)
							if dl[sc.Call.Args[0]] {
								okVal = true
							}
						}
					}
					// the Values are this request's query
					okQ := false
					for _, q := range Roots(set.Common().Args[0]) {
						if qc, isCall := q.(*ssa.Call); isCall && CalleeName(qc) == "(*net/url.URL).Query" {
							for _, ur := range Roots(qc.Call.Args[0]) {
								if ld, isLoad := ur.(*ssa.UnOp); isLoad {
									if fa, isFA := ld.X.(*ssa.FieldAddr); isFA && req[fa.X] {
										okQ = true
									}
								}
							}
						}
					}
					if okVal && okQ {
						sets = append(sets, set)
					}
				}
				stores, _, _ := c13QueryStores(f)
				okD := len(sets) > 0
				whyD := "no Query().Set(\"digest\", expected.Digest.String()) on the request built from the Location"
				for _, site := range c13SendSites(f) {
					if !c13RootsIn(c13RequestArg(site), req) && !req[c13RequestArg(site)] {
						continue
					}
					if !MustPass(site.(ssa.Instruction), newCut().Calls(sets)) {
						okD, whyD = false, "the PUT can be sent without the digest parameter having been set"
					}
					stored := false
					for _, st := range stores {
						for _, set := range sets {
							if Dominates(set.(ssa.Instruction), st) && MustPass(site.(ssa.Instruction), newCut().Instr(st)) {
								stored = true
							}
						}
					}
					if okD && !stored {
						okD, whyD = false, "the Values carrying the digest are not encoded back into RawQuery before the PUT"
					}
				}
				c.Check(RD, fn+"|digest-added-to-location-query", nr.Pos(), okD, ifelse(okD, "digest = expected.Digest is set on the Location's own query and encoded back before the PUT", whyD))
			}
		}
		stores, _, _ := c13QueryStores(f)
		for i, s := range stores {
			key := fmt.Sprintf("%s|RawQuery#%d", fn, i+1)
			if why := c13QueryStoreOK(s, c13URLOwner); why != "" {
				c.Violation(RQ, key, s.Pos(), why+" (an upload Location or a Link URL may carry state the server needs back)")
			} else {
				c.OK(RQ, key, s.Pos(), "RawQuery = URL.Query() with parameters set/added, re-encoded")
			}
		}
	}
}

// c13SeekableSize: the size handed to the seekable-reader constructor in
// registry/remote is the Size of a descriptor of the function (the one it was
// given / hands back), or the response's Content-Length behind the equality
// test with such a Size, or — in a helper — a parameter for which every caller
// passes such a value.  (Seek clamps against this size: a -1 or a wrong length
// makes SeekEnd fail and reads after Seek return nothing.)
func c13SeekableSize(c *Ctx, rule string, ctor *ssa.Function) {
	var sizeOK func(fn *ssa.Function, v ssa.Value, at ssa.Instruction, depth int) (bool, string)
	sizeOK = func(fn *ssa.Function, v ssa.Value, at ssa.Instruction, depth int) (bool, string) {
		size := c13FieldLoads(fn, c13PkgOCI, "Descriptor", "Size", nil)
		cl := c13FieldLoads(fn, c13PkgHTTP, "Response", "ContentLength", nil)
		eq, _ := c13EqualEdges(fn, cl, size)
		for _, lf := range c13Leaves(v) {
			x := strip(lf.Val)
			switch {
			case size[x] || size[lf.Val]:
			case cl[x] || cl[lf.Val]:
				if len(eq) == 0 || c13ChainReach(fn.Blocks[0], 0, lf.Edges, at, newCut().Edges(eq...)) {
					return false, "the response's Content-Length is used as the content size without having been found equal to the descriptor's Size (it is -1 for a chunked response)"
				}
			default:
				prm, isParam := x.(*ssa.Parameter)
				if !isParam || depth <= 0 {
					return false, "the size (" + describe(x) + ") is not the Size of the descriptor the function was given / returns"
				}
				idx := -1
				for i, q := range fn.Params {
					if q == prm {
						idx = i
					}
				}
				callers := 0
				for _, g := range c.P.FuncsOfPkg(c13PkgRemote) {
					for _, call := range c13CallsToFn(g, fn) {
						callers++
						if ok, why := sizeOK(g, call.Common().Args[idx], call.(ssa.Instruction), depth-1); !ok {
							return false, "caller " + FnName(g) + ": " + why
						}
					}
				}
				if callers == 0 {
					return false, "the size is a parameter and no caller was found"
				}
			}
		}
		return true, ""
	}
	n := 0
	for _, f := range c.P.FuncsOfPkg(c13PkgRemote) {
		for k, call := range c13CallsToFn(f, ctor) {
			n++
			args := call.Common().Args
			ok, why := sizeOK(f, args[len(args)-1], call.(ssa.Instruction), 2)
			c.Check(rule, fmt.Sprintf("%s|seekable-size#%d", FnName(f), k+1), call.Pos(), ok,
				ifelse(ok, "the seekable reader is given the Size of the descriptor of this content", "the seekable reader is constructed with a wrong content size: "+why))
		}
	}
	if n == 0 {
		c.LostAnchor(rule, "construction of the seekable reader (httputil.NewReadSeekCloser) in ~/registry/remote")
	}
}

// c13ExchangeFnOf: the function performing f's single HTTP exchange: f itself
// or an in-module helper it (transitively, to the given depth) calls; top =
// the calls in f that lead there.
func c13ExchangeFnOf(f *ssa.Function, depth int) (E *ssa.Function, top []ssa.CallInstruction) {
	if n := len(c13SendSites(f)); n == 1 {
		return f, nil
	} else if n > 1 || depth == 0 {
		return nil, nil
	}
	for _, call := range Calls(f, func(string) bool { return true }) {
		g := StaticCallee(call)
		if g == nil || !inModule(g) || len(g.Blocks) == 0 || fnPkgPath(g) != fnPkgPath(f) || g == f {
			continue
		}
		if e, _ := c13ExchangeFnOf(g, depth-1); e != nil {
			if E != nil && E != e {
				return nil, nil
			}
			E = e
			top = append(top, call)
		}
	}
	return E, top
}

// ---------- readSeekCloser ----------

func c13Seek(c *Ctx) {
	const RS = "C13.R2.seek"
	c.Expect(RS, 7)
	// role: the type returned by httputil.NewReadSeekCloser
	ctor := c.P.Fn("internal/httputil", "NewReadSeekCloser")
	if ctor == nil {
		c.LostAnchor(RS, "~/internal/httputil.NewReadSeekCloser")
		return
	}
	var T *types.Named
	for _, a := range RetAtoms(ctor, 0) {
		if mi, ok := a.Val.(*ssa.MakeInterface); ok {
			if p, ok := types.Unalias(mi.X.Type()).(*types.Pointer); ok {
				T, _ = types.Unalias(p.Elem()).(*types.Named)
			}
		}
	}
	if T == nil {
		c.LostAnchor(RS, "concrete type returned by NewReadSeekCloser")
		return
	}
	method := func(name string) *ssa.Function {
		ms := types.NewMethodSet(types.NewPointer(T))
		for i := 0; i < ms.Len(); i++ {
			if ms.At(i).Obj().Name() == name {
				return c.P.SSA.FuncValue(ms.At(i).Obj().(*types.Func))
			}
		}
		return nil
	}
	seek, read := method("Seek"), method("Read")
	if seek == nil || read == nil {
		c.LostAnchor(RS, T.Obj().Name()+".Seek/Read")
		return
	}
	tn := T.Obj().Name()
	// the position field, by role: the int64 field of the receiver that Read updates
	// (fallback: the int64 field Seek assigns the value it returns)
	posField := ""
	fieldStores := func(fn *ssa.Function) map[string]int {
		out := map[string]int{}
		recvAl := Aliases(fn.Params[0])
		AllInstrs(fn, func(in ssa.Instruction) {
			st, ok := in.(*ssa.Store)
			if !ok {
				return
			}
			fa, ok := st.Addr.(*ssa.FieldAddr)
			if !ok || !recvAl[fa.X] {
				return
			}
			if b, isB := types.Unalias(st.Val.Type()).Underlying().(*types.Basic); isB && b.Kind() == types.Int64 {
				out[c13FieldNameOf(fa.X.Type(), fa.Field)]++
			}
		})
		return out
	}
	if fs := fieldStores(read); len(fs) == 1 {
		for name := range fs {
			posField = name
		}
	} else {
		for name := range fieldStores(seek) {
			if posField == "" || name < posField {
				posField = name
			}
		}
	}
	if posField == "" {
		c.LostAnchor(RS, tn+": the position field (an int64 field of the receiver that Read / Seek update)")
		return
	}
	pkg := "internal/httputil"
	c13SeekableSize(c, RS, ctor)
	// Seek: the range request (in Seek itself or in a helper it calls, depth ≤ 3) is gated by 206
	E, top := c13ExchangeFnOf(seek, 3)
	if E == nil {
		c.LostAnchor(RS, fmt.Sprintf("%s: exactly one HTTP exchange in Seek or its helpers", FnName(seek)))
		return
	}
	site := c13SendSites(E)[0]
	resp := ResultOf(site, 0)
	if resp == nil {
		c.Violation(RS, FnName(seek)+"|206", site.Pos(), "the response of the range request is discarded")
		return
	}
	b, i := c13AfterSite(site)
	cut206, dir206 := c13FactCut(E, Aliases(resp), c13StatusFact([]int64{206}), 2)
	bad := c13SuccessEscapes(E, b, i, cut206, dir206)
	ok206 := bad == nil
	if E != seek {
		// the helper's failure must be Seek's failure
		if ErrResultIndex(E.Signature) < 0 {
			ok206 = false
		}
		for _, tc := range top {
			if r := c13ErrFlow(tc, ErrFlowOpts{}); !r.OK {
				ok206 = false
			}
		}
	}
	c.Check(RS, FnName(seek)+"|206", site.Pos(), ok206,
		ifelse(ok206, "after the range request success is reported only on the edge StatusCode == 206",
			"Seek can succeed although the server did not answer 206 Partial Content (a 200 would replay the blob from byte 0 at the new offset)"))
	// the range request carries a Range header
	hasRange := false
	for _, call := range CallsTo(E, "(net/http.Header).Set") {
		if s, ok := constString(call.Common().Args[1]); ok && s == "Range" && MustPass(site.(ssa.Instruction), newCut().Instr(call.(ssa.Instruction))) {
			hasRange = true
		}
	}
	c.Check(RS, FnName(seek)+"|Range-header", site.Pos(), hasRange, "req.Header.Set(\"Range\", …) precedes the exchange on every path")
	// the reader's state changes only after the range request succeeded: on a path that issues the request no
	// receiver field is stored (and no field-held body closed) before it, and stores after it lie behind its success
	stateOK, stateWhy := true, ""
	checkState := func(fn *ssa.Function, req ssa.Instruction, after *cut, what string) {
		recvAl := Aliases(fn.Params[0])
		fieldVal := map[ssa.Value]bool{}
		AllInstrs(fn, func(in ssa.Instruction) {
			if ld, ok := in.(*ssa.UnOp); ok && ld.Op == token.MUL {
				if fa, ok := ld.X.(*ssa.FieldAddr); ok && recvAl[fa.X] {
					fieldVal[ld] = true
				}
			}
		})
		AllInstrs(fn, func(in ssa.Instruction) {
			isState := false
			switch u := in.(type) {
			case *ssa.Store:
				if fa, ok := u.Addr.(*ssa.FieldAddr); ok && recvAl[fa.X] {
					isState = true
				}
			case *ssa.Call:
				if u.Call.IsInvoke() && u.Call.Method.Name() == "Close" && fieldVal[u.Call.Value] {
					isState = true
				}
				// a method of the reader that stores its fields (a state setter)
				if h := StaticCallee(u); h != nil && h != fn && h != E && inModule(h) && len(h.Blocks) > 0 && len(u.Call.Args) > 0 && recvAl[u.Call.Args[0]] && len(h.Params) > 0 {
					hr := Aliases(h.Params[0])
					AllInstrs(h, func(hin ssa.Instruction) {
						if st, ok := hin.(*ssa.Store); ok {
							if fa, ok := st.Addr.(*ssa.FieldAddr); ok && hr[fa.X] {
								isState = true
							}
						}
					})
				}
			}
			if !isState {
				return
			}
			if reach(in.Block(), instrIndex(in)+1, req, nil) {
				stateOK, stateWhy = false, fmt.Sprintf("%s changes the reader's state at %s before the range request: if the request then fails, the reader is left at the new offset with no body (a retried Seek succeeds without a request and reads return nothing)", FnName(fn), c.P.Pos(in.Pos()))
				return
			}
			if after != nil && reach(req.Block(), instrIndex(req)+1, in, after) {
				stateOK, stateWhy = false, fmt.Sprintf("%s changes the reader's state at %s after the range request without %s", FnName(fn), c.P.Pos(in.Pos()), what)
			}
		})
	}
	var nilReq []Edge
	if e := ErrOf(site); e != nil {
		nilReq, _, _ = NilTests(E, Aliases(e))
	}
	if len(E.Params) > 0 && c13IsNamed(E.Params[0].Type(), pkg, tn) {
		checkState(E, site.(ssa.Instruction), newCut().Edges(nilReq...), "its error having been found nil")
		checkState(E, site.(ssa.Instruction), cut206, "the status having been found 206")
	}
	if E != seek {
		for _, tc := range top {
			var nilTop []Edge
			if e := ErrOf(tc); e != nil {
				nilTop, _, _ = NilTests(seek, Aliases(e))
			}
			checkState(seek, tc.(ssa.Instruction), newCut().Edges(nilTop...), "the request helper's error having been found nil")
		}
	}
	c.Check(RS, FnName(seek)+"|state-only-after-success", site.Pos(), stateOK, ifelse(stateOK, "no field of the reader is stored before the range request on a path that issues it; stores after it lie behind error == nil and status 206", stateWhy))
	// offset recorded on every success path that changes position
	recv := seek.Params[0]
	recvAl := Aliases(recv)
	offLoads := c13FieldLoads(seek, pkg, tn, posField, func(b ssa.Value) bool { return recvAl[b] })
	// position stores: direct, or through a setter method of the receiver that stores one of its parameters
	// into the position field on every path (swapBody(body, offset))
	type posStore struct {
		at  ssa.Instruction
		val ssa.Value
	}
	var stores []posStore
	for _, st := range c13FieldStores(seek, pkg, tn, posField, func(b ssa.Value) bool { return recvAl[b] }) {
		stores = append(stores, posStore{st, st.Val})
	}
	for _, ci := range Calls(seek, func(string) bool { return true }) {
		call, isCall := ci.(*ssa.Call)
		h := StaticCallee(ci)
		if !isCall || h == nil || !inModule(h) || len(h.Blocks) == 0 || h == seek || len(call.Call.Args) == 0 || !recvAl[call.Call.Args[0]] || len(h.Params) != len(call.Call.Args) {
			continue
		}
		hr := Aliases(h.Params[0])
		for _, st := range c13FieldStores(h, pkg, tn, posField, func(b ssa.Value) bool { return hr[b] }) {
			for i, p := range h.Params {
				if st.Val != ssa.Value(p) {
					continue
				}
				all := true
				for _, r := range Returns(h) {
					if !MustPass(r, newCut().Instr(st)) {
						all = false
					}
				}
				if all {
					stores = append(stores, posStore{call, call.Call.Args[i]})
				}
			}
		}
	}
	// edges where the requested offset equals the current one
	var same []Edge
	for _, iff := range Ifs(seek) {
		cond, t, f := ifEdges(iff)
		bo, ok := cond.(*ssa.BinOp)
		if !ok || (bo.Op != token.EQL && bo.Op != token.NEQ) {
			continue
		}
		if (offLoads[bo.X] && !offLoads[bo.Y]) || (offLoads[bo.Y] && !offLoads[bo.X]) {
			if bo.Op == token.EQL {
				same = append(same, t)
			} else {
				same = append(same, f)
			}
		}
	}
	cutOff := newCut().Edges(same...)
	for _, s := range stores {
		cutOff.Instr(s.at)
	}
	bad = c13SuccessEscapes(seek, seek.Blocks[0], 0, cutOff, nil)
	c.Check(RS, FnName(seek)+"|offset-recorded", seek.Pos(), bad == nil && len(stores) > 0,
		ifelse(bad == nil && len(stores) > 0, "every success path either found the position unchanged or stores the new offset",
			"Seek can succeed with a changed position without recording it in offset: later SeekCurrent/Read accounting is wrong"))
	// stored value is the value returned
	okVal := true
	for _, s := range stores {
		for _, r := range Returns(seek) {
			if !Reachable(s.at, r) || len(r.Results) != 2 {
				continue
			}
			if ErrNilStatus(r.Results[1], 0) == NonNil {
				continue
			}
			if r.Results[0] != s.val && !SameValue(r.Results[0], s.val) {
				okVal = false
			}
		}
	}
	c.Check(RS, FnName(seek)+"|offset-is-result", seek.Pos(), okVal, "the offset stored equals the offset returned")
	// Read: offset += n
	recvR := Aliases(read.Params[0])
	rstores := c13FieldStores(read, pkg, tn, posField, func(b ssa.Value) bool { return recvR[b] })
	var inner []ssa.CallInstruction
	for _, call := range Calls(read, func(n string) bool { return n == "(io.Reader).Read" || strings.HasSuffix(n, ").Read") }) {
		inner = append(inner, call)
	}
	okRead := len(inner) == 1 && len(rstores) >= 1
	if okRead {
		n := ResultOf(inner[0], 0)
		nAl := c13AliasSet(n)
		offR := c13FieldLoads(read, pkg, tn, posField, func(b ssa.Value) bool { return recvR[b] })
		good := newCut()
		for _, s := range rstores {
			add, ok := s.Val.(*ssa.BinOp)
			if !ok || add.Op != token.ADD {
				okRead = false
				continue
			}
			x, y := strip(add.X), strip(add.Y)
			if (offR[add.X] && nAl[y]) || (offR[add.Y] && nAl[x]) {
				good.Instr(s)
			} else {
				okRead = false
			}
		}
		for _, r := range Returns(read) {
			if Reachable(inner[0].(ssa.Instruction), r) && !MustPassBetween(inner[0].(ssa.Instruction), r, good) {
				okRead = false
			}
		}
	}
	c.Check(RS, FnName(read)+"|offset+=n", read.Pos(), okRead,
		ifelse(okRead, "after the underlying Read every path adds the byte count to offset", "Read does not add the number of bytes read to offset on every path"))
}

var c13Mutants = []Mutant{
	{Name: "upload-length-mismatch-reported-as-success", File: "registry/remote/repository.go",
		Old:    "\t\treturn fmt.Errorf(\"mismatch content length %d: expect %d\", req.ContentLength, expected.Size)\n\t}\n\treq.ContentLength = expected.Size\n\t// the expected media type is ignored as in the API doc.",
		New:    "\t\treturn nil\n\t}\n\treq.ContentLength = expected.Size\n\t// the expected media type is ignored as in the API doc.",
		Expect: "C13.R1.success-needs-exchange"},
	{Name: "predecessors-listing-error-dropped", File: "registry/remote/repository.go",
		Old: "\t}); err != nil {\n\t\treturn nil, err\n\t}\n\treturn res, nil", New: "\t}); err != nil {\n\t\treturn res, nil\n\t}\n\treturn res, nil",
		Expect: "C13.R1.predecessors-surfaces-failure"},
	{Name: "location-host-fixup-widened", File: "registry/remote/repository.go",
		Old:    "\tif reqPort == \"443\" && locationHostname == reqHostname && locationPort == \"\" {",
		New:    "\tif reqPort == \"443\" || locationHostname == reqHostname && locationPort == \"\" {",
		Expect: "C13.R4.location-host-fixup-guarded"},
	{Name: "mount-always-plain-http", File: "registry/remote/repository.go",
		Old:    "\turl := buildRepositoryBlobMountURL(s.repo.PlainHTTP, s.repo.Reference, desc.Digest, fromRepo)",
		New:    "\turl := buildRepositoryBlobMountURL(true, s.repo.Reference, desc.Digest, fromRepo)",
		Expect: "C13.R4.scheme-option-reaches-url"},
	{Name: "clone-drops-max-metadata-bytes", File: "registry/remote/repository.go",
		Old: "\t\tMaxMetadataBytes:     r.MaxMetadataBytes,\n", New: "", Expect: "C13.R3.options-carried-by-clone"},
	{Name: "resolve-generator-told-get", File: "registry/remote/repository.go",
		Old: "\t\treturn s.generateDescriptor(resp, ref, req.Method)", New: "\t\treturn s.generateDescriptor(resp, ref, http.MethodGet)", Expect: "C13.R2.generator-method-agrees"},
	{Name: "manifest-exists-unsupported-is-false", File: "registry/remote/repository.go",
		Old:    "func (s *manifestStore) Exists(ctx context.Context, target ocispec.Descriptor) (bool, error) {\n\t_, err := s.Resolve(ctx, target.Digest.String())\n\tif err == nil {\n\t\treturn true, nil\n\t}\n\tif errors.Is(err, errdef.ErrNotFound) {",
		New:    "func (s *manifestStore) Exists(ctx context.Context, target ocispec.Descriptor) (bool, error) {\n\t_, err := s.Resolve(ctx, target.Digest.String())\n\tif err == nil {\n\t\treturn true, nil\n\t}\n\tif errors.Is(err, errdef.ErrNotFound) || errors.Is(err, errdef.ErrUnsupported) {",
		Expect: "C13.R1.exists-reflects-not-found-only"},
	{Name: "mount-same-repository-is-noop", File: "registry/remote/repository.go",
		Old:    "\t// We also need pull access to the source repo.\n\tfromRef := s.repo.Reference",
		New:    "\tif fromRepo == s.repo.Reference.Repository {\n\t\treturn nil\n\t}\n\t// We also need pull access to the source repo.\n\tfromRef := s.repo.Reference",
		Expect: "C13.R1.success-needs-exchange"},
	{Name: "selector-ignores-option", File: "registry/remote/repository.go",
		Old: "\tif isManifest(r.ManifestMediaTypes, desc) {", New: "\tif isManifest(nil, desc) {", Expect: "C13.R3"},
	{Name: "default-list-always-consulted", File: "registry/remote/manifest.go",
		Old: "\tif len(manifestMediaTypes) == 0 {\n\t\tmanifestMediaTypes = defaultManifestMediaTypes\n\t}", New: "\tif len(manifestMediaTypes) == 0 || desc.MediaType != \"\" {\n\t\tmanifestMediaTypes = defaultManifestMediaTypes\n\t}", Expect: "C13.R3"},
	{Name: "exists-bypasses-selector", File: "registry/remote/repository.go",
		Old: "\treturn r.blobStore(target).Exists(ctx, target)", New: "\treturn r.Blobs().Exists(ctx, target)", Expect: "C13.R3"},
	{Name: "seek-state-before-request", File: "internal/httputil/seek.go",
		Old:    "\tif offset >= rsc.size {\n\t\trsc.rc.Close()\n\t\trsc.rc = http.NoBody\n\t\trsc.offset = offset\n\t\treturn offset, nil\n\t}",
		New:    "\trsc.rc.Close()\n\trsc.rc = http.NoBody\n\trsc.offset = offset\n\tif offset >= rsc.size {\n\t\treturn offset, nil\n\t}",
		Expect: "C13.R2.seek"},
	{Name: "seekable-size-from-content-length", File: "registry/remote/repository.go",
		Old:    "\t\t\treturn desc, httputil.NewReadSeekCloser(s.repo.client(), req, resp.Body, desc.Size), nil",
		New:    "\t\t\treturn desc, httputil.NewReadSeekCloser(s.repo.client(), req, resp.Body, resp.ContentLength), nil",
		Expect: "C13.R2.seek"},
	{Name: "upload-put-query-rebuilt", File: "registry/remote/repository.go",
		Old:    "\tq := req.URL.Query()\n\tq.Set(\"digest\", expected.Digest.String())\n\treq.URL.RawQuery = q.Encode()",
		New:    "\treq.URL.RawQuery = \"digest=\" + expected.Digest.String()",
		Expect: "C13.R4.query-preserved"},
	{Name: "upload-put-fresh-values", File: "registry/remote/repository.go",
		Old:    "\tq := req.URL.Query()\n\tq.Set(\"digest\", expected.Digest.String())\n\treq.URL.RawQuery = q.Encode()",
		New:    "\tq := resp.Request.URL.Query()\n\tq.Set(\"digest\", expected.Digest.String())\n\treq.URL.RawQuery = q.Encode()",
		Expect: "C13.R4"},
	{Name: "upload-put-digest-only-when-query-empty", File: "registry/remote/repository.go",
		Old:    "\tq := req.URL.Query()\n\tq.Set(\"digest\", expected.Digest.String())\n\treq.URL.RawQuery = q.Encode()",
		New:    "\tq := req.URL.Query()\n\tif len(q) == 0 {\n\t\tq.Set(\"digest\", expected.Digest.String())\n\t}\n\treq.URL.RawQuery = q.Encode()",
		Expect: "C13.R4.upload-digest-parameter"},
	{Name: "upload-put-url-from-request", File: "registry/remote/repository.go",
		Old:    "\turl := location.String()\n\treq, err = http.NewRequestWithContext(ctx, http.MethodPut, url, content)",
		New:    "\turl := location.String()\n\tif locationHostname == \"\" {\n\t\turl = req.URL.String()\n\t}\n\treq, err = http.NewRequestWithContext(ctx, http.MethodPut, url, content)",
		Expect: "C13.R4.request-url-provenance"},
	{Name: "referrers-page-query-rebuilt", File: "registry/remote/repository.go",
		Old:    "\t\tq := req.URL.Query()\n\t\tq.Set(\"n\", strconv.Itoa(r.ReferrerListPageSize))\n\t\treq.URL.RawQuery = q.Encode()",
		New:    "\t\treq.URL.RawQuery = \"n=\" + strconv.Itoa(r.ReferrerListPageSize)",
		Expect: "C13.R4.query-preserved"},
	{Name: "delete-accepts-any-2xx", File: "registry/remote/repository.go",
		Old:    "\tcase http.StatusAccepted:\n\t\treturn verifyContentDigest(resp, target.Digest)\n\tcase http.StatusNotFound:\n\t\treturn fmt.Errorf(\"%s: %w\", target.Digest, errdef.ErrNotFound)\n\tdefault:\n\t\treturn errutil.ParseErrorResponse(resp)\n\t}",
		New:    "\tcase http.StatusNotFound:\n\t\treturn fmt.Errorf(\"%s: %w\", target.Digest, errdef.ErrNotFound)\n\tdefault:\n\t\tif resp.StatusCode >= 400 {\n\t\t\treturn errutil.ParseErrorResponse(resp)\n\t\t}\n\t\treturn verifyContentDigest(resp, target.Digest)\n\t}",
		Expect: "C13.R1"},
	{Name: "tags-status-unchecked", File: "registry/remote/repository.go",
		Old:    "\tif resp.StatusCode != http.StatusOK {\n\t\treturn \"\", errutil.ParseErrorResponse(resp)\n\t}\n\tvar page struct {\n\t\tTags []string `json:\"tags\"`",
		New:    "\tvar page struct {\n\t\tTags []string `json:\"tags\"`",
		Expect: "C13.R1"},
	{Name: "put-blob-accepts-202", File: "registry/remote/repository.go",
		Old:    "\tif resp.StatusCode != http.StatusCreated {\n\t\treturn errutil.ParseErrorResponse(resp)\n\t}\n\treturn nil\n}",
		New:    "\tif resp.StatusCode != http.StatusCreated && resp.StatusCode != http.StatusAccepted {\n\t\treturn errutil.ParseErrorResponse(resp)\n\t}\n\treturn nil\n}",
		Expect: "C13.R1"},
	{Name: "ping-default-is-success", File: "registry/remote/registry.go",
		Old:    "\tcase http.StatusNotFound:\n\t\treturn errdef.ErrNotFound\n\tdefault:\n\t\treturn errutil.ParseErrorResponse(resp)\n\t}",
		New:    "\tcase http.StatusNotFound:\n\t\treturn errdef.ErrNotFound\n\tcase http.StatusUnauthorized, http.StatusForbidden:\n\t\treturn errutil.ParseErrorResponse(resp)\n\tdefault:\n\t\treturn nil\n\t}",
		Expect: "C13.R1"},
	{Name: "blob-fetch-no-length-check", File: "registry/remote/repository.go",
		Old:    "\t\tif size := resp.ContentLength; size != -1 && size != target.Size {\n\t\t\treturn nil, fmt.Errorf(\"%s %q: mismatch Content-Length\", resp.Request.Method, resp.Request.URL)\n\t\t}\n\t\tif err := verifyContentDigest(resp, target.Digest); err != nil {\n\t\t\treturn nil, err\n\t\t}\n\n\t\t// check server range",
		New:    "\t\tif err := verifyContentDigest(resp, target.Digest); err != nil {\n\t\t\treturn nil, err\n\t\t}\n\n\t\t// check server range",
		Expect: "C13.R2.length-checked"},
	{Name: "blob-fetch-verify-only-seekable", File: "registry/remote/repository.go",
		Old:    "\t\tif err := verifyContentDigest(resp, target.Digest); err != nil {\n\t\t\treturn nil, err\n\t\t}\n\n\t\t// check server range request capability.\n\t\t// Docker spec allows range header form of \"Range: bytes=<start>-<end>\".\n\t\t// However, the remote server may still not RFC 7233 compliant.\n\t\t// Reference: https://docs.docker.com/registry/spec/api/#blob\n\t\tif rangeUnit := resp.Header.Get(\"Accept-Ranges\"); rangeUnit == \"bytes\" {\n\t\t\treturn httputil.NewReadSeekCloser(s.repo.client(), req, resp.Body, target.Size), nil",
		New:    "\t\t// check server range request capability.\n\t\tif rangeUnit := resp.Header.Get(\"Accept-Ranges\"); rangeUnit == \"bytes\" {\n\t\t\tif err := verifyContentDigest(resp, target.Digest); err != nil {\n\t\t\t\treturn nil, err\n\t\t\t}\n\t\t\treturn httputil.NewReadSeekCloser(s.repo.client(), req, resp.Body, target.Size), nil",
		Expect: "C13.R2.digest-verified"},
	{Name: "manifest-fetch-mediatype-unchecked", File: "registry/remote/repository.go",
		Old:    "\tif mediaType != target.MediaType {\n\t\treturn nil, fmt.Errorf(\"%s %q: mismatch response Content-Type %q: expect %q\", resp.Request.Method, resp.Request.URL, mediaType, target.MediaType)\n\t}\n",
		New:    "\t_ = mediaType\n",
		Expect: "C13.R2.mediatype-checked"},
	{Name: "manifest-push-digest-ignored", File: "registry/remote/repository.go",
		Old:    "\ts.checkOCISubjectHeader(resp)\n\treturn verifyContentDigest(resp, expected.Digest)",
		New:    "\ts.checkOCISubjectHeader(resp)\n\t_ = verifyContentDigest(resp, expected.Digest)\n\treturn nil",
		Expect: "C13.R2"},
	{Name: "verifier-parse-failure-tolerated", File: "registry/remote/repository.go",
		Old:    "\tcontentDigest, err := digest.Parse(digestStr)\n\tif err != nil {\n\t\treturn fmt.Errorf(\n\t\t\t\"%s %q: invalid response header: `%s: %s`\",\n\t\t\tresp.Request.Method, resp.Request.URL,\n\t\t\theaderDockerContentDigest, digestStr,\n\t\t)\n\t}",
		New:    "\tcontentDigest, err := digest.Parse(digestStr)\n\tif err != nil {\n\t\treturn nil\n\t}",
		Expect: "C13.R2.verifier"},
	{Name: "blob-descriptor-unknown-length", File: "registry/remote/repository.go",
		Old:    "\tsize := resp.ContentLength\n\tif size == -1 {\n\t\treturn ocispec.Descriptor{}, fmt.Errorf(\"%s %q: unknown response Content-Length\", resp.Request.Method, resp.Request.URL)\n\t}\n",
		New:    "\tsize := resp.ContentLength\n",
		Expect: "C13.R2.length-checked"},
	{Name: "head-without-any-digest-accepted", File: "registry/remote/repository.go",
		Old:    "\t\t\tif len(refDigest) == 0 {\n\t\t\t\t// HEAD without server `Docker-Content-Digest` header is an\n\t\t\t\t// immediate fail\n\t\t\t\treturn ocispec.Descriptor{}, fmt.Errorf(\n\t\t\t\t\t\"HTTP %s request missing required header %q\",\n\t\t\t\t\thttpMethod, headerDockerContentDigest,\n\t\t\t\t)\n\t\t\t}\n",
		New:    "",
		Expect: "C13.R2.generated-descriptor"},
	{Name: "client-digest-mismatch-accepted", File: "registry/remote/repository.go",
		Old:    "\tif len(refDigest) > 0 && refDigest != contentDigest {",
		New:    "\tif len(refDigest) > 0 && refDigest != contentDigest && httpMethod == http.MethodHead {",
		Expect: "C13.R2.generated-descriptor"},
	{Name: "seek-accepts-200", File: "internal/httputil/seek.go",
		Old:    "\tif resp.StatusCode != http.StatusPartialContent {",
		New:    "\tif resp.StatusCode != http.StatusPartialContent && resp.StatusCode != http.StatusOK {",
		Expect: "C13.R2.seek"},
	{Name: "seek-offset-not-recorded", File: "internal/httputil/seek.go",
		Old:    "\trsc.rc.Close()\n\trsc.rc = resp.Body\n\trsc.offset = offset\n\treturn offset, nil",
		New:    "\trsc.rc.Close()\n\trsc.rc = resp.Body\n\treturn offset, nil",
		Expect: "C13.R2.seek"},
	{Name: "mount-201-unverified", File: "registry/remote/repository.go",
		Old:    "\t\t// Check the server seems to be behaving.\n\t\treturn verifyContentDigest(resp, desc.Digest)",
		New:    "\t\t// Check the server seems to be behaving.\n\t\tif resp.Header.Get(\"Location\") == \"\" {\n\t\t\treturn verifyContentDigest(resp, desc.Digest)\n\t\t}\n\t\treturn nil",
		Expect: "C13.R2.digest-verified"},
}
