package main

// C10 — a crash never leaves an OCI layout corrupt.
//
//   R1 file-system effect inventory of content/oci (E6)
//   R2 replace-by-rename for files that New reads (index.json, oci-layout)
//   R3 orderings: verify -> rename, blob -> index entry, index save -> blob removal

import (
	"fmt"
	"go/constant"
	"go/token"
	"go/types"
	"sort"
	"strings"

	"golang.org/x/tools/go/ssa"
)

func init() {
	register(&propDef{
		ID: "C10",
		Explain: "Decided (the protocol that makes every prefix of system calls safe, not the crash points themselves): (R1) every file-system mutating call in content/oci " +
			"is one of the confirmed sites (ingest temp file, verified rename into blobs/, blob removal in Storage.Delete and GC, index/layout writes, cleanup), nothing else touches the disk; " +
			"(R2) a file that oci.New reads back (index.json, oci-layout) is never rewritten in place — only created when absent or replaced by rename; " +
			"(R3) Storage.Push renames into blobs/ only the ingest file returned by a successful ingest, and ingest returns nil only after the verifying copy into that very file succeeded; " +
			"Store.Push tags (and saves the index) only after the blob is in place; Store.Tag tags only content that exists; Store.delete removes the blob only after the index without its tags was saved; " +
			"GC removes blobs only after the pruned index was saved (both under AutoSaveIndex). " +
			"NOT decided (not applicable to static analysis): the enumeration of kill points, durability across power loss (no fsync anywhere; the property kills the process only), atomicity of os.Rename itself, " +
			"behaviour with AutoSaveIndex=false (documented as the caller's responsibility).",
		Run:     runC10,
		Mutants: c10Mutants,
	})
}

func runC10(c *Ctx) {
	c10R1(c)
	c10R2(c)
	c10R3(c)
	c10R4(c)
}

// R4: effects of operations that had returned are on disk: Tag / Push(manifest) / Untag
// return nil (AutoSaveIndex on) only after a successful save of index.json — evaluated
// from function entry, not from a change of the in-memory map (shared with C08.R2).
func c10R4(c *Ctx) {
	const R4 = "C10.R4.returned-effects-persisted"
	c.Expect(R4, 6)
	r := c08FindRoles(c, R4)
	if r == nil {
		return
	}
	for _, cs := range c08IndexCriticalSections(c.P, r) {
		c.Check(R4, cs.Key, cs.Pos, cs.OK, ifelse(cs.OK, cs.How, cs.Why+" — two concurrent savers (Tag and Untag hold s.sync only in read mode) can then write index.json in the reverse order of their snapshots: an operation that already returned is undone on disk"))
	}
	// the storage operations themselves: success of Storage.Push means the blob was published under its name,
	// success of Storage.Delete means the file was removed (directly or in a helper all of whose successful
	// returns did it)
	for _, op := range []struct {
		name   string
		effect func(n string) bool
		what   string
	}{
		{"Storage.Push", func(n string) bool { return n == "os.Rename" || n == "(*os.Root).Rename" }, "published"},
		{"Storage.Delete", func(n string) bool { return n == "os.Remove" || n == "(*os.Root).Remove" }, "removed"},
	} {
		f := c.P.Fn(c08Pkg, op.name)
		if f == nil {
			c.LostAnchor(R4, "~/content/oci."+op.name)
			continue
		}
		sites := c09EffectSites(f, c09Identity, func(call ssa.CallInstruction, _ c09Bind) bool { return op.effect(CalleeName(call)) }, 2)
		if len(sites) == 0 {
			c.LostAnchor(R4, FnName(f)+": the call that makes the effect ("+op.what+")")
			continue
		}
		ct := newCut()
		c09SuccessCut(f, sites, ct)
		okS, at := c09SuccessImplies(f, ct)
		c.Check(R4, FnName(f)+"|success-implies-"+op.what, at, okS, ifelse(okS, "every return that may report success lies behind the successful file-system effect",
			"the operation can report success although the file-system effect failed or did not run: the caller (and index.json, written next) relies on a blob state that is not on disk"))
	}
	promises, lost := c08PersistPromises(c.P, r)
	for _, l := range lost {
		c.LostAnchor(R4, l)
	}
	for _, pr := range promises {
		key := FnName(pr.Fn) + "|" + pr.What
		if pr.Bad == nil {
			c.OK(R4, key, pr.Fn.Pos(), "every nil-error return passes a successful saveIndex (or the AutoSaveIndex==false edge) from function entry")
		} else {
			c.Violation(R4, key, pr.Bad.Pos(), "the operation can return success at "+c.P.Pos(pr.Bad.Pos())+" without index.json having been written although AutoSaveIndex is on: "+
				"if the in-memory tag map was ahead of the file (earlier failed index write, or tagging while AutoSaveIndex was off) a crash after this return loses a tag change the caller was told is stored")
		}
	}
}

// ---------------------------------------------------------------- R1

// The inventory is keyed by the exported operation from which the effect is
// reached (through unexported helpers and closures) and the resolved callee —
// not by the unexported function that happens to contain the call, so moving
// an effect into a helper does not change its key while a new effect of an
// operation still does.  Effects issued by the function that writes
// s.indexPath (role, not name) carry the prefix "index:".
const (
	c10opNew     = "~/content/oci.NewWithContext"
	c10opSPush   = "(*~/content/oci.Storage).Push"
	c10opSDelete = "(*~/content/oci.Storage).Delete"
	c10opGC      = "(*~/content/oci.Store).GC"
)

var c10IndexOps = []string{c10opNew, "(*~/content/oci.Store).Push", "(*~/content/oci.Store).Tag", "(*~/content/oci.Store).Untag",
	"(*~/content/oci.Store).Delete", "(*~/content/oci.Store).SaveIndex", c10opGC}

func c10InventoryTable() []InvLine {
	t := []InvLine{
		{Fn: c10opNew, Callee: "os.MkdirAll", Role: "creates blobs/ (idempotent; an empty directory is a valid layout state)"},
		{Fn: c10opNew, Callee: "os.WriteFile", Role: "creates oci-layout when it does not exist (initialisation, see R2)"},
		{Fn: c10opNew, Callee: "(*os.File).Close", Role: "closes the read-only handles of oci-layout / index.json"},
		{Fn: c10opSPush, Callee: "os.MkdirAll", Role: "creates the ingest and blobs/<alg> directories"},
		{Fn: c10opSPush, Callee: "os.CreateTemp", Role: "temporary ingest file, outside blobs/", Required: true},
		{Fn: c10opSPush, Callee: "os.Chmod", Role: "read-only mode on the ingest file (not needed for crash safety)"},
		{Fn: c10opSPush, Callee: "(*os.File).Close", Role: "closes the ingest file (close-time write errors surface; required before the rename on Windows)", Required: true},
		{Fn: c10opSPush, Callee: "os.Remove", Role: "cleanup of the ingest file on failure"},
		{Fn: c10opSPush, Callee: "os.Rename", Role: "publication: verified ingest file -> blobs/<alg>/<hex>", Required: true},
		{Fn: c10opSDelete, Callee: "os.Remove", Role: "removal of one blob", Required: true},
		{Fn: c10opGC, Callee: "os.Remove", Role: "sweep of unreachable blobs", Required: true},
	}
	for _, op := range c10IndexOps {
		t = append(t, InvLine{Fn: op, Callee: "index:os.WriteFile", Role: "writes index.json (see R2: in place — known finding D5)"})
		// shape of the D5 repair (sibling temporary file renamed over index.json); R2 checks source and target of the rename
		for _, callee := range []string{"os.CreateTemp", "(*os.File).Write", "(*os.File).WriteString", "(*os.File).Sync", "(*os.File).Close", "(*os.File).Chmod", "os.Chmod", "os.Remove", "os.Rename"} {
			t = append(t, InvLine{Fn: op, Callee: "index:" + callee, Role: "replace-by-rename of index.json through a temporary sibling (R2)"})
		}
	}
	return t
}

// c10Operations: the exported functions / methods of the package from which f
// is reached through unexported helpers, closures and deferred calls (f itself
// when it is exported).  An unexported function nobody calls is its own key.
func c10Operations(p *Prog, f *ssa.Function) []*ssa.Function {
	isOp := func(g *ssa.Function) bool {
		return g.Parent() == nil && g.Object() != nil && g.Object().Exported()
	}
	callers := map[*ssa.Function][]*ssa.Function{}
	for g := range p.All {
		if fnPkgPath(g) != fnPkgPath(f) || len(g.Blocks) == 0 || !c09IsSourceFn(g) {
			continue
		}
		AllInstrs(g, func(in ssa.Instruction) {
			switch x := in.(type) {
			case *ssa.MakeClosure:
				cf := x.Fn.(*ssa.Function)
				callers[cf] = append(callers[cf], g)
				// a method value (store.ensureOCILayoutFile as a step of a table): the bound wrapper calls the method
				if cf.Synthetic != "" && len(cf.Blocks) > 0 {
					for _, call := range Calls(cf, func(string) bool { return true }) {
						if h := StaticCallee(call); h != nil {
							callers[h] = append(callers[h], g)
						}
					}
				}
			case ssa.CallInstruction:
				if h := StaticCallee(x); h != nil {
					callers[h] = append(callers[h], g)
				}
				for _, a := range x.Common().Args {
					if h, ok := a.(*ssa.Function); ok {
						callers[h] = append(callers[h], g)
					}
				}
			}
		})
	}
	seen := map[*ssa.Function]bool{}
	ops := map[*ssa.Function]bool{}
	var up func(g *ssa.Function, d int)
	up = func(g *ssa.Function, d int) {
		if seen[g] {
			return
		}
		seen[g] = true
		if isOp(g) {
			ops[g] = true
			return
		}
		if d == 0 || len(callers[g]) == 0 {
			if g == f || len(callers[g]) == 0 {
				ops[g] = true
			}
			return
		}
		for _, cg := range callers[g] {
			up(cg, d-1)
		}
	}
	up(f, 5)
	var out []*ssa.Function
	for g := range ops {
		out = append(out, g)
	}
	sort.Slice(out, func(i, j int) bool { return out[i].String() < out[j].String() })
	return out
}

func c10R1(c *Ctx) {
	const R1 = "C10.R1.fs-effect-inventory"
	c.Expect(R1, 19)
	fns := c09FuncsOfPkg(c.P, c08Pkg)
	if len(fns) == 0 {
		c.LostAnchor(R1, "package ~/content/oci")
		return
	}
	r := c08FindRoles(c, R1)
	if r == nil {
		return
	}
	raw := Inventory(fns, func(n string) bool { return fsMutators[n] })
	// an effect reached through an interface method (closeInto(&err, c io.Closer) { c.Close() }): when everything
	// the helper is handed at its call sites is an *os.File, the call is the file's method
	for _, f := range fns {
		for _, call := range Calls(f, func(string) bool { return true }) {
			cc := call.Common()
			if !cc.IsInvoke() || !fsMutators["(*os.File)."+cc.Method.Name()] {
				continue
			}
			os_, okO := c09Origins(c.P, cc.Value, 3, nil)
			all := okO && len(os_) > 0
			for _, o := range os_ {
				t := o.Type()
				if mi, ok := o.(*ssa.MakeInterface); ok {
					t = mi.X.Type()
				}
				all = all && short(t.String()) == "*os.File"
			}
			if all {
				raw = append(raw, EffectSite{f, call, "(*os.File)." + cc.Method.Name()})
			}
		}
	}
	var sites []EffectSite
	opsOf := map[*ssa.Function][]*ssa.Function{}
	for _, s := range raw {
		if _, done := opsOf[s.Fn]; !done {
			opsOf[s.Fn] = c10Operations(c.P, s.Fn)
		}
		callee := s.Callee
		host := s.Fn
		for host.Parent() != nil {
			host = host.Parent()
		}
		if r.indexWriter[host] {
			callee = "index:" + callee
		}
		for _, op := range opsOf[s.Fn] {
			sites = append(sites, EffectSite{Fn: op, Call: s.Call, Callee: callee})
		}
	}
	CheckInventory(c, R1, sites, c10InventoryTable())
	// the temporary file is created outside blobs/: the directory handed to CreateTemp is not put together from
	// the blobs directory name (a crash would otherwise leave a partial file where only complete blobs may be)
	if blobsDir, ok := c.P.Obj("github.com/opencontainers/image-spec/specs-go/v1", "ImageBlobsDir").(*types.Const); ok {
		for _, f := range fns {
			for _, ct := range CallsTo(f, "os.CreateTemp") {
				consts := map[string]bool{}
				c10PathConsts(c.P, ct.Common().Args[0], 0, consts)
				okT := !consts[constant.StringVal(blobsDir.Val())]
				c.Check(R1, c10opSPush+"|os.CreateTemp|outside-blobs", ct.Pos(), okT, ifelse(okT, "the directory of the temporary file is not derived from the blobs directory",
					"the temporary file is created below "+constant.StringVal(blobsDir.Val())+"/: a crash during Push leaves a partial file among the blobs"))
			}
		}
	}
	// cleanup around the publication may only remove the ingest file, never the published blob
	if push := c.P.Fn(c08Pkg, "Storage.Push"); push != nil {
		var ing ssa.Value
		var ingest *ssa.Function
		for _, ic := range c10IngestCalls(push) {
			ing, ingest = ResultOf(ic, 0), StaticCallee(ic)
		}
		for _, host := range c09ReachableInPkg(push, 2) {
			if host == ingest || (ingest != nil && host.Parent() == ingest) || len(CallsTo(host, "os.Rename")) == 0 {
				continue
			}
			for _, rmc := range CallsTo(host, "os.Remove") {
				vals, okO := c09Origins(c.P, rmc.Common().Args[0], 2, push)
				ok := ing != nil && okO && len(vals) > 0
				for _, v := range vals {
					if ing == nil || !c09SameKey(v, ing) {
						ok = false
					}
				}
				c.Check(R1, c10opSPush+"|os.Remove|removes-only-the-ingest-file", rmc.Pos(), ok, ifelse(ok, "the cleanup removes the path returned by ingest", "the cleanup in Push removes something else than the ingest file"))
			}
		}
	}
}

// c10PathConsts: the string constants from which the path value v is put together
// (Join of constants and other paths, concatenation, a struct field: what is
// stored into that field anywhere in the package).
func c10PathConsts(p *Prog, v ssa.Value, depth int, out map[string]bool) {
	if v == nil || depth > 5 {
		return
	}
	if sv, ok := constString(v); ok {
		out[sv] = true
		return
	}
	switch u := strip(v).(type) {
	case *ssa.Phi:
		for _, e := range u.Edges {
			c10PathConsts(p, e, depth+1, out)
		}
	case *ssa.BinOp:
		c10PathConsts(p, u.X, depth+1, out)
		c10PathConsts(p, u.Y, depth+1, out)
	case *ssa.Call:
		for _, a := range u.Call.Args {
			if el := c09LiteralElems(a); len(el) > 0 {
				for _, e := range el {
					c10PathConsts(p, e, depth+1, out)
				}
			} else {
				c10PathConsts(p, a, depth+1, out)
			}
		}
	case *ssa.UnOp:
		fa, ok := u.X.(*ssa.FieldAddr)
		if u.Op != token.MUL || !ok {
			return
		}
		pt, _ := fa.X.Type().Underlying().(*types.Pointer)
		if pt == nil {
			return
		}
		for _, f := range c09FuncsOfPkg(p, c08Pkg) {
			AllInstrs(f, func(in ssa.Instruction) {
				st, ok := in.(*ssa.Store)
				if !ok {
					return
				}
				if fa2, ok := st.Addr.(*ssa.FieldAddr); ok && fa2.Field == fa.Field && types.Identical(fa2.X.Type(), fa.X.Type()) {
					c10PathConsts(p, st.Val, depth+1, out)
				}
			})
		}
	}
}

// c10IngestCalls: calls in Storage.Push to the helper that creates the temporary file (role: reaches os.CreateTemp).
func c10IngestCalls(push *ssa.Function) []ssa.CallInstruction {
	var out []ssa.CallInstruction
	// push's own body and, when its sequence is a table of step closures, the steps
	for _, body := range c09StepBodies(push) {
		for _, call := range Calls(body, func(string) bool { return true }) {
			if g := StaticCallee(call); g != nil && g != push && inModule(g) && ErrResultIndex(g.Signature) >= 0 &&
				reachesCall(g, 1, func(n string, _ ssa.CallInstruction) bool { return n == "os.CreateTemp" }) {
				out = append(out, call)
			}
		}
	}
	return out
}

// ---------------------------------------------------------------- R2

// c10ReadBackFile: the path value *is* a file that oci.New reads back: the
// store's indexPath, or Join(..., "index.json" | "oci-layout").  Paths merely
// computed from those (Dir, a temporary sibling's name) do not count.
func c10ReadBackFile(r *c08Roles, v ssa.Value) string {
	rs := Roots(v)
	if len(rs) == 0 {
		return ""
	}
	file := ""
	for _, rt := range rs {
		got := ""
		switch u := rt.(type) {
		case *ssa.UnOp:
			if u.Op == token.MUL && c09IsFieldAddrOf(u.X, r.store, "indexPath") {
				got = "index.json"
			}
		case *ssa.Call:
			if n := CalleeName(u); (n == "path/filepath.Join" || n == "path.Join") && len(u.Call.Args) == 1 {
				got = c10LastJoinElem(u.Call.Args[0])
			}
		case *ssa.Const:
			if sv, ok := constString(u); ok && (strings.HasSuffix(sv, "/index.json") || strings.HasSuffix(sv, "/oci-layout") || sv == "index.json" || sv == "oci-layout") {
				got = sv[strings.LastIndex(sv, "/")+1:]
			}
		}
		if got != "index.json" && got != "oci-layout" {
			return ""
		}
		if file != "" && file != got {
			return ""
		}
		file = got
	}
	return file
}

// c10LastJoinElem: the constant last element of a variadic Join(a, b, "name").
func c10LastJoinElem(v ssa.Value) string {
	sl, ok := v.(*ssa.Slice)
	if !ok {
		return ""
	}
	a, ok := sl.X.(*ssa.Alloc)
	if !ok {
		return ""
	}
	best, name := int64(-1), ""
	for _, ref := range *a.Referrers() {
		ia, ok := ref.(*ssa.IndexAddr)
		if !ok {
			continue
		}
		k, ok := constInt(ia.Index)
		if !ok {
			return ""
		}
		for _, r2 := range *ia.Referrers() {
			if st, ok := r2.(*ssa.Store); ok && st.Addr == ia && k > best {
				best = k
				name, _ = constString(st.Val)
			}
		}
	}
	return name
}

func c10R2(c *Ctx) {
	const R2 = "C10.R2.replace-by-rename"
	c.Expect(R2, 2)
	r := c08FindRoles(c, R2)
	if r == nil {
		return
	}
	n := 0
	for _, f := range c09FuncsOfPkg(c.P, c08Pkg) {
		for _, call := range Calls(f, func(name string) bool { return c08InPlaceWriters[name] }) {
			args := call.Common().Args
			if len(args) == 0 {
				continue
			}
			// where the written path is known: here, or — when it is a parameter of an unexported helper
			// (writeJSONFile(path, …)) — at each place the helper is entered from, judged separately
			type wsite struct {
				at   ssa.Instruction
				path ssa.Value
				file string
			}
			var wsites []wsite
			var expand func(at ssa.Instruction, pv ssa.Value, depth int)
			expand = func(at ssa.Instruction, pv ssa.Value, depth int) {
				if file := c10ReadBackFile(r, pv); file != "" {
					wsites = append(wsites, wsite{at, pv, file})
					return
				}
				pf, _ := c09ParamOf(pv)
				if pf == nil || pf != at.Parent() || depth <= 0 {
					return
				}
				if sites, closed := c09SitesOf(c.P, pf); closed {
					for _, cs := range sites {
						if w := cs.Tr(pv); w != nil {
							expand(cs.At, w, depth-1)
						}
					}
				}
			}
			expand(call.(ssa.Instruction), args[0], 2)
			absentEdges := func(fn *ssa.Function, v c09Vals) []Edge {
				if v["path"] == nil {
					return nil
				}
				var absent []Edge
				for _, oc := range Calls(fn, func(nm string) bool { return nm == "os.Open" || nm == "os.Stat" || nm == "os.Lstat" }) {
					if !c09SameKey(oc.Common().Args[0], v["path"]) {
						continue
					}
					e := ErrOf(oc)
					if e == nil {
						continue
					}
					al := Aliases(e)
					te, _, _ := CallTests(fn, "os.IsNotExist", func(x *ssa.Call) bool { return al[x.Call.Args[0]] })
					absent = append(absent, te...)
					te2, _, _ := CallTests(fn, "errors.Is", func(x *ssa.Call) bool {
						return al[x.Call.Args[0]] && strings.HasSuffix(sentinelName(x.Call.Args[1]), "ErrNotExist")
					})
					absent = append(absent, te2...)
				}
				return absent
			}
			for _, ws := range wsites {
				n++
				file := ws.file
				key := file + "|" + CalleeName(call) // keyed by the file role and the callee, not by the function that hosts the call
				// creation: reached only when opening the same path reported "not exist"
				if c09GuardedUp(c.P, ws.at, c09Vals{"path": ws.path}, absentEdges, 2) {
					c.OK(R2, key, call.Pos(), file+" is written here only when it did not exist (creation, not replacement)")
					continue
				}
				c.Violation(R2, key, call.Pos(), file+" already exists and is read back by oci.New, but is rewritten in place with "+CalleeName(call)+
					" (open-truncate, then write): a process killed between the two system calls leaves an empty or partial "+file+" and oci.New fails to open the layout. "+
					"Replace by writing a sibling temporary file and os.Rename over the target")
			}
		}
		// a read-back file is never removed (there is no window without it)
		for _, call := range Calls(f, func(nm string) bool { return nm == "os.Remove" || nm == "os.RemoveAll" }) {
			if file := c10ReadBackFile(r, call.Common().Args[0]); file != "" {
				n++
				c.Violation(R2, file+"|"+CalleeName(call), call.Pos(), file+" is removed: a process killed before it is recreated leaves a layout that oci.New cannot open (or that lost all tags)")
			}
		}
		// renames over a read-back file: the source must be a temporary sibling created in this function
		for _, call := range CallsTo(f, "os.Rename") {
			args := call.Common().Args
			file := c10ReadBackFile(r, args[1])
			if file == "" {
				continue
			}
			n++
			tmp := false
			for _, ct := range Calls(f, func(nm string) bool {
				return nm == "os.CreateTemp" || nm == "os.Create" || nm == "os.OpenFile" || nm == "os.WriteFile"
			}) {
				if c09Uses(args[0], ct.Value(), 0) || (len(ct.Common().Args) > 0 && c09SameKey(ct.Common().Args[0], args[0])) {
					tmp = true
				}
			}
			c.Check(R2, file+"|os.Rename", call.Pos(), tmp, ifelse(tmp, file+" is replaced by renaming a file written in this function", "the rename source is not a file written by this function"))
		}
	}
	if n == 0 {
		c.LostAnchor(R2, "writes of index.json / oci-layout in ~/content/oci")
	}
}

// ---------------------------------------------------------------- R3

func c10R3(c *Ctx) {
	const R3 = "C10.R3.ordering"
	c.Expect(R3, 9)
	r := c08FindRoles(c, R3)
	if r == nil {
		return
	}
	c10R3StoragePush(c, R3)
	c10R3StorePushTag(c, R3, r)
	c10R3DeleteGC(c, R3, r)
}

func c10R3StoragePush(c *Ctx, R3 string) {
	push := c.P.Fn(c08Pkg, "Storage.Push")
	if push == nil {
		c.LostAnchor(R3, "~/content/oci.Storage.Push")
		return
	}
	pn := FnName(push)
	ings := c10IngestCalls(push)
	var renames []ssa.CallInstruction
	for _, h := range c09ReachableInPkg(push, 2) {
		if len(ings) == 1 && h == StaticCallee(ings[0]) {
			continue
		}
		renames = append(renames, CallsTo(h, "os.Rename")...)
	}
	if len(ings) != 1 || len(renames) == 0 {
		c.LostAnchor(R3, pn+": ingest helper call / os.Rename")
		return
	}
	ic := ings[0]
	ingest := StaticCallee(ic)
	ingested := func(fn *ssa.Function, _ c09Vals) []Edge {
		var out []Edge
		for _, x := range c10IngestCalls(fn) {
			if e := ErrOf(x); e != nil {
				ne, _, _ := NilTests(fn, Aliases(e))
				out = append(out, ne...)
			}
		}
		return out
	}
	tmp := ResultOf(ic, 0)
	exp := c09DescObjOf(ic.Common().Args[1])
	// the ingest call sits in a step closure: the descriptor is push's own variable, captured (and never reassigned)
	if ld, isLd := ic.Common().Args[1].(*ssa.UnOp); isLd && ld.Op == token.MUL {
		if fv, isFV := ld.X.(*ssa.FreeVar); isFV {
			if bs := freeVarBindings(fv); len(bs) == 1 {
				if a, isAlloc := bs[0].(*ssa.Alloc); isAlloc && a.Parent() == push && len(storesTo(a)) == 1 && len(closureWriters(a)) == 0 {
					exp.cells[a] = true
					exp.vals[storesTo(a)[0].Val] = true
					for _, r := range *a.Referrers() {
						if u, ok := r.(*ssa.UnOp); ok && u.Op == token.MUL && u.X == ssa.Value(a) {
							exp.vals[u] = true
						}
					}
				}
			}
		}
	}
	for _, rn := range renames {
		ok := c09GuardedUp(c.P, rn.(ssa.Instruction), nil, ingested, 2) ||
			// the rename is (in) a later step of the table whose earlier step returns nil only after a successful ingest
			c09BehindStepSuccess(c.P, rn.(ssa.Instruction), func(call ssa.CallInstruction) bool { return call == ic }, 2)
		c.Check(R3, pn+"|rename-after-successful-ingest", rn.Pos(), ok, ifelse(ok, "os.Rename into blobs/ is reached only on the nil edge of ingest's error", "a file can be renamed into blobs/ although writing/verifying it failed: a truncated or wrong blob becomes visible under its digest name"))
		srcs, okS := c09Origins(c.P, rn.Common().Args[0], 2, push)
		ok = tmp != nil && okS && len(srcs) > 0
		for _, sv := range srcs {
			if tmp == nil || !c09SameKey(sv, tmp) {
				ok = false
			}
		}
		c.Check(R3, pn+"|rename-source-is-ingest-file", rn.Pos(), ok, ifelse(ok, "the renamed file is the path returned by ingest", "the file renamed into blobs/ is not the verified ingest file"))
		// destination: blobPath(expected.Digest) of the descriptor handed to ingest
		dsts, okD := c09Origins(c.P, rn.Common().Args[1], 2, push)
		okDst := okD && len(dsts) > 0
		for _, dv := range dsts {
			hit := false
			AllInstrs(push, func(in ssa.Instruction) {
				call, isCall := in.(*ssa.Call)
				if !isCall || !c09Uses(dv, call, 0) {
					return
				}
				if g := StaticCallee(call); g == nil || !inModule(g) {
					return
				}
				for _, a := range call.Call.Args { // blobPath(expected.Digest), s.blobTarget(expected), …
					if exp.fieldOf(a, "Digest") || exp.vals[a] {
						hit = true
					}
				}
			})
			if !hit {
				okDst = false
			}
		}
		c.Check(R3, pn+"|rename-target-named-by-verified-digest", rn.Pos(), okDst, ifelse(okDst, "the target path is computed from the digest of the descriptor the content was verified against", "the target path does not derive from the digest of the descriptor passed to ingest"))
	}
	// ingest: nil only after the verifying copy into the temp file succeeded
	in := FnName(ingest)
	temps := CallsTo(ingest, "os.CreateTemp")
	if len(temps) == 0 {
		c.LostAnchor(R3, in+": os.CreateTemp")
		return
	}
	fp := ResultOf(temps[0], 0)
	// the verifying copy into that file, against the expected descriptor — in ingest or in a helper extracted from it
	copies := c09EffectSites(ingest, c09Identity, func(call ssa.CallInstruction, bind c09Bind) bool {
		a := call.Common().Args
		if CalleeName(call) != "~/internal/ioutil.CopyBuffer" || len(a) != 4 || fp == nil {
			return false
		}
		dst, want := bind(strip(a[0])), bind(a[3])
		if dst == nil || want == nil || !c09SameKey(dst, fp) {
			return false
		}
		for _, prm := range ingest.Params {
			if c09DescObjOf(prm).vals[want] {
				return true
			}
		}
		return false
	}, 2)
	var copied []Edge
	for _, cp := range copies {
		if e := ErrOf(cp.(ssa.CallInstruction)); e != nil {
			ne, _, _ := NilTests(ingest, Aliases(e))
			copied = append(copied, ne...)
		}
	}
	errIdx := ErrResultIndex(ingest.Signature)
	ok, n := true, 0
	for _, a := range RetAtoms(ingest, errIdx) {
		if !c09MayBeNilAtom(ingest, a) {
			continue
		}
		n++
		if !AtomMustPass(a, newCut().Edges(copied...)) {
			ok = false
		}
	}
	c.Check(R3, in+"|nil-only-after-verified-copy", ingest.Pos(), ok && n > 0 && len(copied) > 0, ifelse(ok && n > 0 && len(copied) > 0, "every return with a nil error lies on the nil edge of ioutil.CopyBuffer's (size+digest verifying) error", "ingest can report success although the verifying copy (into the temporary file, against the expected descriptor) failed or did not run"))
	okW, okP := len(copies) > 0, fp != nil
	n = 0
	for _, a := range RetAtoms(ingest, 0) {
		if s, isConst := constString(a.Val); isConst && s == "" {
			continue
		}
		if _, isZero := a.Val.(zeroMarker); isZero {
			continue
		}
		n++
		call, isCall := a.Val.(*ssa.Call)
		if !isCall || CalleeName(call) != "(*os.File).Name" || fp == nil || !c09SameKey(call.Call.Args[0], fp) {
			okP = false
		}
	}
	c.Check(R3, in+"|verified-file-is-returned-file", ingest.Pos(), okW && okP && n > 0, ifelse(okW && okP && n > 0, "the copy writes into the CreateTemp file, verified against the expected descriptor, and that file's name is returned", "the file written and verified is not the one whose path is returned (or is not verified against the expected descriptor)"))
	// a pooled buffer is handed back only after its last use: the verifying copy hashes the bytes it read into the
	// buffer and then writes them from the same buffer — a buffer that is already back in the pool can be overwritten
	// by a concurrent Push in between, and a file whose bytes do not match its name is published
	for _, f := range c09FuncsOfPkg(c.P, c08Pkg) {
		for _, put := range CallsTo(f, "(*sync.Pool).Put") {
			pc, isCall := put.(*ssa.Call)
			if !isCall { // deferred: runs when the function is left
				c.OK(R3, FnName(f)+"|pooled-buffer-released-after-last-use", put.Pos(), "the buffer goes back to the pool in a deferred call, when the function is left")
				continue
			}
			mi, _ := pc.Call.Args[1].(*ssa.MakeInterface)
			if mi == nil {
				continue
			}
			derived := map[ssa.Value]bool{mi.X: true}
			for changed := true; changed; {
				changed = false
				AllInstrs(f, func(in ssa.Instruction) {
					v, isVal := in.(ssa.Value)
					if !isVal || derived[v] {
						return
					}
					switch u := in.(type) {
					case *ssa.UnOp, *ssa.Slice, *ssa.ChangeType, *ssa.Convert, *ssa.IndexAddr, *ssa.Phi, *ssa.MakeInterface:
						for _, op := range u.Operands(nil) {
							if *op != nil && derived[*op] {
								derived[v], changed = true, true
							}
						}
					}
				})
			}
			okB, at := true, put.Pos()
			AllInstrs(f, func(in ssa.Instruction) {
				if in == ssa.Instruction(pc) || !okB {
					return
				}
				for _, op := range in.Operands(nil) {
					if *op != nil && derived[*op] && reach(pc.Block(), instrIndex(pc)+1, in, nil) {
						if _, isDbg := in.(*ssa.DebugRef); !isDbg {
							okB, at = false, in.Pos()
						}
					}
				}
			})
			c.Check(R3, FnName(f)+"|pooled-buffer-released-after-last-use", at, okB, ifelse(okB, "the buffer is not used after it went back to the pool",
				"the buffer is used after it was put back into the pool: a concurrent user of the pool can overwrite it between verification and write, and content that does not match its digest is stored"))
		}
	}
}

func c10R3StorePushTag(c *Ctx, R3 string, r *c08Roles) {
	// the tag helper: callee that performs resolver Tag on s.tagResolver
	isTagHelper := func(g *ssa.Function) bool {
		if g == nil || fnPkgPath(g) != pkgPath(c08Pkg) {
			return false
		}
		for _, m := range c08Mutations(g, r) {
			if call, ok := m.(ssa.CallInstruction); ok && CalleeName(call) == c08nResTag {
				return true
			}
		}
		return false
	}
	tagSites := func(f *ssa.Function) []ssa.Instruction {
		var out []ssa.Instruction
		for _, call := range Calls(f, func(string) bool { return true }) {
			if isTagHelper(StaticCallee(call)) {
				out = append(out, call.(ssa.Instruction))
			}
		}
		for _, m := range c08Mutations(f, r) {
			if call, ok := m.(ssa.CallInstruction); ok && CalleeName(call) == c08nResTag {
				out = append(out, m)
			}
		}
		return out
	}
	// Store.Push: storage.Push succeeded before the tag
	if push := c.P.Fn(c08Pkg, "Store.Push"); push == nil {
		c.LostAnchor(R3, "~/content/oci.Store.Push")
	} else {
		pn := FnName(push)
		var stored []Edge
		for _, sp := range CallsTo(push, "(*~/content/oci.Storage).Push") {
			if e := ErrOf(sp); e != nil {
				ne, _, _ := NilTests(push, Aliases(e))
				stored = append(stored, ne...)
			}
		}
		stored = append(stored, c09StepTableSuccess(push, func(call ssa.CallInstruction) bool { return CalleeName(call) == "(*~/content/oci.Storage).Push" })...)
		ts := tagSites(push)
		if len(ts) == 0 || len(stored) == 0 {
			c.LostAnchor(R3, pn+": storage.Push error test / tag call")
		}
		for _, t := range ts {
			ok := MustPass(t, newCut().Edges(stored...))
			c.Check(R3, pn+"|blob-in-place-before-index-entry", t.Pos(), ok, ifelse(ok, "the manifest is tagged (and index.json saved) only on the nil edge of storage.Push", "index.json can name a blob whose write failed or has not happened yet"))
		}
	}
	// Store.Tag: exists == true before the tag
	if tag := c.P.Fn(c08Pkg, "Store.Tag"); tag == nil {
		c.LostAnchor(R3, "~/content/oci.Store.Tag")
	} else {
		tn := FnName(tag)
		var exists []Edge
		for _, ec := range Calls(tag, func(n string) bool { return strings.HasSuffix(n, ").Exists") }) {
			if b := ResultOf(ec, 0); b != nil {
				te, _ := BoolTests(tag, Aliases(b))
				exists = append(exists, te...)
			}
		}
		// … or a helper whose nil error implies exists == true (`if err := s.mustExist(ctx, desc); err != nil { return err }`)
		for _, hc := range Calls(tag, func(string) bool { return true }) {
			g := StaticCallee(hc)
			if _, isCall := hc.(*ssa.Call); !isCall || g == nil || fnPkgPath(g) != pkgPath(c08Pkg) || len(g.Blocks) == 0 || ErrResultIndex(g.Signature) < 0 {
				continue
			}
			var inner []Edge
			for _, ec := range Calls(g, func(n string) bool { return strings.HasSuffix(n, ").Exists") }) {
				if b := ResultOf(ec, 0); b != nil {
					te, _ := BoolTests(g, Aliases(b))
					inner = append(inner, te...)
				}
			}
			if len(inner) == 0 || !c10NilImplies(g, inner) {
				continue
			}
			if e := ErrOf(hc); e != nil {
				ne, _, _ := NilTests(tag, Aliases(e))
				exists = append(exists, ne...)
			}
		}
		ts := tagSites(tag)
		if len(ts) == 0 {
			c.LostAnchor(R3, tn+": tag call")
		}
		for _, t := range ts {
			ok := len(exists) > 0 && MustPass(t, newCut().Edges(exists...))
			c.Check(R3, tn+"|exists-before-index-entry", t.Pos(), ok, ifelse(ok, "the descriptor is tagged only on the exists==true edge of storage.Exists", "a descriptor can be tagged (and written to index.json) although its blob is not in the store"))
		}
	}
}

// c10NilImplies: g returns a nil error only on paths through one of the edges.
func c10NilImplies(g *ssa.Function, edges []Edge) bool {
	errIdx := ErrResultIndex(g.Signature)
	if errIdx < 0 {
		return false
	}
	ct := newCut().Edges(edges...)
	n := 0
	for _, a := range RetAtoms(g, errIdx) {
		if ErrNilStatus(a.Val, 0) == NonNil {
			continue
		}
		if _, isZero := a.Val.(zeroMarker); !isZero {
			if _, isConst := a.Val.(*ssa.Const); !isConst {
				if _, nonNil, _ := NilTests(g, Aliases(a.Val)); len(nonNil) > 0 && MustPass(a.Ret, newCut().Edges(nonNil...)) {
					continue
				}
			}
		}
		n++
		if !AtomMustPass(a, ct) {
			return false
		}
	}
	return n > 0
}

// c10R3DeleteGC: blobs are removed only after the index that no longer names
// them was saved successfully (under AutoSaveIndex).
func c10R3DeleteGC(c *Ctx, R3 string, r *c08Roles) {
	c08ComputeDirty(c.P, r)
	type site struct {
		fn      *ssa.Function
		removes []ssa.Instruction
		key     string
	}
	var sites []site
	// helpers that change the tag map and save it themselves before returning nil
	clean := map[*ssa.Function]bool{}
	for _, f := range c09FuncsOfPkg(c.P, c08Pkg) {
		if c09IsYieldBody(f) {
			continue
		}
		if len(c08Mutations(f, r)) > 0 && !r.dirty[f] && !r.savers[f] {
			clean[f] = true
		}
	}
	// a change of the tag map inside f: a direct mutation, or the call of such a helper
	// (then index.json is current again on the nil edge of the helper's error)
	mutationsOf := func(f *ssa.Function) (ms []ssa.Instruction, okEdges map[ssa.Instruction][]Edge) {
		ms = c08Mutations(f, r)
		okEdges = map[ssa.Instruction][]Edge{}
		for _, call := range Calls(f, func(string) bool { return true }) {
			g := StaticCallee(call)
			if _, isCall := call.(*ssa.Call); !isCall || g == nil || !clean[g] {
				continue
			}
			in := call.(ssa.Instruction)
			ms = append(ms, in)
			if e := ErrOf(call); e != nil {
				ne, _, _ := NilTests(f, Aliases(e))
				okEdges[in] = ne
			}
		}
		return
	}
	isRemoval := func(n string) bool {
		return n == "os.Remove" || n == "os.RemoveAll" || n == "(*os.Root).Remove" || n == "(*~/content/oci.Storage).Delete"
	}
	mutates := func(g *ssa.Function) bool {
		for _, x := range c09ReachableInPkg(g, 3) {
			if len(c08Mutations(x, r)) > 0 {
				return true
			}
		}
		return false
	}
	for _, f := range c09FuncsOfPkg(c.P, c08Pkg) {
		if ms, _ := mutationsOf(f); len(ms) == 0 || c09IsYieldBody(f) {
			continue
		}
		var rm []ssa.Instruction
		for _, call := range Calls(f, func(string) bool { return true }) {
			if _, isDefer := call.(*ssa.Defer); isDefer {
				continue
			}
			if isRemoval(CalleeName(call)) {
				rm = append(rm, call.(ssa.Instruction))
				continue
			}
			// a helper that only removes (the extracted sweep): the call is the removal
			if g := StaticCallee(call); g != nil && g != f && fnPkgPath(g) == pkgPath(c08Pkg) && len(g.Blocks) > 0 && !mutates(g) &&
				reachesCall(g, 3, func(n string, _ ssa.CallInstruction) bool { return isRemoval(n) }) {
				rm = append(rm, call.(ssa.Instruction))
			}
		}
		if len(rm) > 0 {
			sites = append(sites, site{f, rm, FnName(f) + "|index-saved-before-blob-removal"})
		}
	}
	if len(sites) < 2 {
		c.LostAnchor(R3, "functions of oci.Store that both change the tag map and remove blobs (delete helper, GC)")
	}
	for _, s := range sites {
		f := s.fn
		_, off := c08AutoSaveEdges(f, r.store)
		ok, detail := true, ""
		var pos token.Pos = f.Pos()
		var blamed []string
		muts, savedOn := mutationsOf(f)
		for _, M := range muts {
			M := M
			mkCut := func() *cut {
				ct := newCut().Edges(off...).Edges(c08InfeasibleAfter(M, r)...).Edges(savedOn[M]...)
				c08SaveSuccessCut(f, r, ct)
				return ct
			}
			for _, rm := range s.removes {
				rm := rm
				bad := func(ct *cut) bool { return reach(M.Block(), instrIndex(M)+1, rm, ct) }
				if bad(mkCut()) {
					ok = false
					pos = rm.Pos()
					detail = fmt.Sprintf("after %s at %s a path reaches %s at %s without a successful save of index.json in between (AutoSaveIndex on)",
						c08MutationLabel(M), c.P.Pos(M.Pos()), CalleeName(rm.(ssa.CallInstruction)), c.P.Pos(rm.Pos()))
					blamed = append(blamed, c08BlamedGuards(f, r, M, mkCut, bad)...)
				}
			}
		}
		if !ok && len(blamed) > 0 {
			c.Undecided(R3, s.key, pos, detail+"; the save runs only under a condition the rule cannot relate to the change: "+strings.Join(blamed, "; "))
			continue
		}
		c.Check(R3, s.key, pos, ok, ifelse(ok, "every path from a change of the tag map to a blob removal passes a successful saveIndex (or the AutoSaveIndex==false edge)",
			"blobs are removed while index.json still describes the old tag map: "+detail+" — a crash (or simply reopening the layout) finds index.json naming blobs that are gone"))
	}
}

var c10Mutants = []Mutant{
	// generic error-discipline rule (errdiscipline.go): a disabled error check
	{Name: "ed-createtemp-error-swallowed", File: "content/oci/storage.go",
		Old:    "\tfp, err := os.CreateTemp(s.ingestRoot, expected.Digest.Encoded()+\"_*\")\n\tif err != nil {",
		New:    "\tfp, err := os.CreateTemp(s.ingestRoot, expected.Digest.Encoded()+\"_*\")\n\tif false && err != nil {",
		Expect: "C10.ED.error-surfaces"},
	// mutation-sweep triage (test-green survivors judged V)
	{Name: "ingest-buffer-back-to-pool-before-copy", File: "content/oci/storage.go",
		Old: "\tdefer bufPool.Put(buf)\n", New: "\tbufPool.Put(buf)\n",
		Expect: "C10.R3.ordering|(*~/content/oci.Storage).ingest|pooled-buffer-released-after-last-use"},
	{Name: "ingest-file-never-closed", File: "content/oci/storage.go",
		Old:    "\tdefer func() {\n\t\t// close the temp file and check close error\n\t\tif err := fp.Close(); err != nil && ingestErr == nil {\n\t\t\tingestErr = fmt.Errorf(\"failed to close ingest file: %w\", err)\n\t\t}\n\n\t\t// remove the temp file in case of error\n\t\tif ingestErr != nil {\n\t\t\tos.Remove(path)\n\t\t}\n\t}()\n",
		New:    "",
		Expect: "C10.R1.fs-effect-inventory|(*~/content/oci.Storage).Push|(*os.File).Close"},
	// coverage review (all keep the repository's tests green)
	{Name: "push-reports-success-when-rename-finds-target", File: "content/oci/storage.go",
		Old:    "\t\tif errors.Is(err, os.ErrPermission) {\n",
		New:    "\t\tif errors.Is(err, os.ErrExist) {\n\t\t\treturn nil // somebody else stored the same content\n\t\t}\n\t\tif errors.Is(err, os.ErrPermission) {\n",
		Expect: "C10.R4.returned-effects-persisted|(*~/content/oci.Storage).Push|success-implies-published"},
	{Name: "storage-delete-tolerates-permission-error", File: "content/oci/storage.go",
		Old:    "\terr = os.Remove(targetPath)\n\tif err != nil {\n",
		New:    "\terr = os.Remove(targetPath)\n\tif errors.Is(err, fs.ErrPermission) {\n\t\treturn nil // read-only file system: leave the blob\n\t}\n\tif err != nil {\n",
		Expect: "C10.R4.returned-effects-persisted|(*~/content/oci.Storage).Delete|success-implies-removed"},
	{Name: "ingest-directory-below-blobs", File: "content/oci/storage.go",
		Old: "filepath.Join(rootAbs, \"ingest\")", New: "filepath.Join(rootAbs, ocispec.ImageBlobsDir, \"ingest\")",
		Expect: "C10.R1.fs-effect-inventory|(*~/content/oci.Storage).Push|os.CreateTemp|outside-blobs"},
	// R1
	{Name: "stray-marker-file", File: "content/oci/oci.go",
		Old: "\treachableNodes := s.graph.DigestSet()\n", New: "\treachableNodes := s.graph.DigestSet()\n\t_ = os.WriteFile(filepath.Join(s.root, \".gc\"), nil, 0666)\n",
		Expect: "C10.R1.fs-effect-inventory|(*~/content/oci.Store).GC|os.WriteFile"},
	{Name: "delete-truncates-instead", File: "content/oci/storage.go",
		Old: "\terr = os.Remove(targetPath)\n", New: "\terr = os.Truncate(targetPath, 0)\n",
		Expect: "C10.R1.fs-effect-inventory|(*~/content/oci.Storage).Delete|os.Truncate"},
	{Name: "push-cleanup-removes-target", File: "content/oci/storage.go",
		Old: "\t\tos.Remove(ingest)\n", New: "\t\tos.Remove(target)\n",
		Expect: "C10.R1.fs-effect-inventory|(*~/content/oci.Storage).Push|os.Remove|removes-only-the-ingest-file"},
	// R2
	{Name: "layout-file-always-rewritten", File: "content/oci/oci.go",
		Old:    "\t\tif !os.IsNotExist(err) {\n\t\t\treturn fmt.Errorf(\"failed to open OCI layout file: %w\", err)\n\t\t}\n",
		New:    "",
		Expect: "C10.R2.replace-by-rename|oci-layout|os.WriteFile"},
	{Name: "index-removed-before-rewrite", File: "content/oci/oci.go",
		Old: "\treturn os.WriteFile(s.indexPath, indexJSON, 0666)\n", New: "\tos.Remove(s.indexPath)\n\treturn os.WriteFile(s.indexPath, indexJSON, 0666)\n",
		Expect: "C10.R2.replace-by-rename|index.json|os.Remove"},
	// R3
	{Name: "rename-despite-ingest-error", File: "content/oci/storage.go",
		Old:    "\tingest, err := s.ingest(expected, content)\n\tif err != nil {\n\t\treturn err\n\t}\n",
		New:    "\tingest, err := s.ingest(expected, content)\n\tif err != nil && ingest == \"\" {\n\t\treturn err\n\t}\n",
		Expect: "C10.R3.ordering|(*~/content/oci.Storage).Push|rename-after-successful-ingest"},
	{Name: "ingest-ignores-copy-error", File: "content/oci/storage.go",
		Old:    "\tif err := ioutil.CopyBuffer(fp, content, *buf, expected); err != nil {\n\t\treturn \"\", fmt.Errorf(\"failed to ingest: %w\", err)\n\t}\n",
		New:    "\tif err := ioutil.CopyBuffer(fp, content, *buf, expected); err != nil && !errors.Is(err, io.ErrUnexpectedEOF) {\n\t\treturn \"\", fmt.Errorf(\"failed to ingest: %w\", err)\n\t}\n",
		Expect: "C10.R3.ordering|(*~/content/oci.Storage).ingest|nil-only-after-verified-copy"},
	{Name: "tag-before-blob", File: "content/oci/oci.go",
		Old:    "\tif err := s.storage.Push(ctx, expected, reader); err != nil {\n\t\treturn err\n\t}\n\tif err := s.graph.Index(ctx, s.storage, expected); err != nil {\n\t\treturn err\n\t}\n\tif descriptor.IsManifest(expected) {\n\t\t// tag by digest\n\t\treturn s.tag(ctx, expected, expected.Digest.String())\n\t}\n\treturn nil\n",
		New:    "\tif descriptor.IsManifest(expected) {\n\t\tif err := s.tag(ctx, expected, expected.Digest.String()); err != nil {\n\t\t\treturn err\n\t\t}\n\t}\n\tif err := s.storage.Push(ctx, expected, reader); err != nil {\n\t\treturn err\n\t}\n\treturn s.graph.Index(ctx, s.storage, expected)\n",
		Expect: "C10.R3.ordering|(*~/content/oci.Store).Push|blob-in-place-before-index-entry"},
	{Name: "tag-missing-content", File: "content/oci/oci.go",
		Old:    "\tif !exists {\n\t\treturn fmt.Errorf(\"%s: %s: %w\", desc.Digest, desc.MediaType, errdef.ErrNotFound)\n\t}\n",
		New:    "\tif !exists && reference == desc.Digest.String() {\n\t\treturn fmt.Errorf(\"%s: %s: %w\", desc.Digest, desc.MediaType, errdef.ErrNotFound)\n\t}\n",
		Expect: "C10.R3.ordering|(*~/content/oci.Store).Tag|exists-before-index-entry"},
	{Name: "blob-removed-before-index-save", File: "content/oci/oci.go",
		Old:    "\tif untagged && s.AutoSaveIndex {\n\t\terr := s.saveIndex()\n\t\tif err != nil {\n\t\t\treturn nil, err\n\t\t}\n\t}\n\tif err := s.storage.Delete(ctx, target); err != nil {\n\t\treturn nil, err\n\t}\n",
		New:    "\tif err := s.storage.Delete(ctx, target); err != nil {\n\t\treturn nil, err\n\t}\n\tif untagged && s.AutoSaveIndex {\n\t\terr := s.saveIndex()\n\t\tif err != nil {\n\t\t\treturn nil, err\n\t\t}\n\t}\n",
		Expect: "C10.R3.ordering|(*~/content/oci.Store).delete|index-saved-before-blob-removal"},
	{Name: "delete-despite-save-error", File: "content/oci/oci.go",
		Old:    "\t\terr := s.saveIndex()\n\t\tif err != nil {\n\t\t\treturn nil, err\n\t\t}\n",
		New:    "\t\t_ = s.saveIndex()\n",
		Expect: "C10.R3.ordering|(*~/content/oci.Store).delete|index-saved-before-blob-removal"},
	// R4
	{Name: "digest-retag-skips-index-write", File: "content/oci/oci.go",
		Old:    "\tdgst := desc.Digest.String()\n\tif reference != dgst {\n\t\t// also tag desc by its digest",
		New:    "\tdgst := desc.Digest.String()\n\tif reference == dgst {\n\t\tif _, err := s.tagResolver.Resolve(ctx, dgst); err == nil {\n\t\t\treturn nil\n\t\t}\n\t}\n\tif reference != dgst {\n\t\t// also tag desc by its digest",
		Expect: "C10.R4.returned-effects-persisted|(*~/content/oci.Store).tag|success-implies-index-saved"},
	{Name: "untag-skips-write-for-unannotated", File: "content/oci/oci.go",
		Old:    "\ts.tagResolver.Untag(reference)\n\tif s.AutoSaveIndex {\n\t\treturn s.saveIndex()\n\t}\n\treturn nil\n",
		New:    "\ts.tagResolver.Untag(reference)\n\tif s.AutoSaveIndex && s.index != nil && len(s.index.Manifests) > 0 {\n\t\treturn s.saveIndex()\n\t}\n\treturn nil\n",
		Expect: "C10.R4.returned-effects-persisted|(*~/content/oci.Store).Untag|success-implies-index-saved"},
	{Name: "snapshot-outside-index-lock", File: "content/oci/oci.go",
		Old:    "\ts.indexLock.Lock()\n\tdefer s.indexLock.Unlock()\n\n\tvar manifests []ocispec.Descriptor\n\ttagged := set.New[digest.Digest]()\n\trefMap := s.tagResolver.Map()\n",
		New:    "\tvar manifests []ocispec.Descriptor\n\ttagged := set.New[digest.Digest]()\n\trefMap := s.tagResolver.Map()\n\n\ts.indexLock.Lock()\n\tdefer s.indexLock.Unlock()\n",
		Expect: "C10.R4.returned-effects-persisted|(*~/content/oci.Store).saveIndex|snapshot-assignment-write-one-critical-section"},
	// applies once D4 is repaired: the save is moved behind the sweep
	{Name: "gc-saves-after-sweep", File: "content/oci/oci.go",
		Old:    "\tif s.AutoSaveIndex {\n\t\tif err := s.saveIndex(); err != nil {\n\t\t\treturn err\n\t\t}\n\t}\n\treachableNodes := s.graph.DigestSet()\n",
		New:    "\treachableNodes := s.graph.DigestSet()\n\tdefer func() {\n\t\tif s.AutoSaveIndex {\n\t\t\ts.saveIndex()\n\t\t}\n\t}()\n",
		Expect: "C10.R3.ordering|(*~/content/oci.Store).GC|index-saved-before-blob-removal"},
}
