#!/usr/bin/env python3
"""Regenerates /verif/MANIFEST.json from the table below (kept next to the checker so the
manifest always matches what bin/orascheck implements)."""
import json, os, sys
here = os.path.dirname(os.path.dirname(os.path.abspath(__file__)))
props = [json.loads(l) for l in open(os.path.join(here, "properties.jsonl"))]
# property id -> (technique, level text, level note, design ref)
claimed = json.load(open(os.path.join(here, "tools", "claims.json")))
import subprocess
explain = json.loads(subprocess.check_output([os.path.join(here, "bin", "orascheck"), "-explain"]))
for pid, c in claimed.items():
    assert pid in explain, pid + " is claimed but not implemented in the checker"
    ed = " Also decided, for every property (rule ED, checker/errdiscipline.go): inside the functions this property's rules are anchored in (and their closures) the error of every fallible call surfaces, or is dropped only after it was classified (errors.Is/As, sentinel comparison, predicate), handed to a sink that surfaces it, or belongs to an enumerated clean-up idiom."
    c.setdefault("text", "Static decision of structural necessary conditions of the property, on every path of the analysed code; it does not observe executions. " + explain[pid] + ed)
    c["technique"] = c["technique"] + "; error-flow discipline (ED) over every fallible call in the functions the rules are anchored in"
    c.setdefault("note", "Trusted base: Go type checker and go/ssa (x/tools v0.29.0), documented contracts of the standard library and pinned dependencies, and the frozen instance tables of the checker (re-validated against the source on every run). Clauses that quantify over runtime values are not decided (listed in the text and in DESIGN.md §6).")
checks, na = [], []
for p in props:
    pid = p["id"]
    if pid in claimed:
        c = claimed[pid]
        checks.append({
            "property_id": pid,
            "quick_cmd": f"bin/orascheck -prop {pid} -tier quick",
            "thorough_cmd": f"bin/orascheck -prop {pid} -tier thorough",
            "evidence_file": f"evidence/{pid}.json",
            "replay_cmd_template": "bin/orascheck -replay {path}",
            "engine": "orascheck",
            "level_claimed": {"category": "other", "text": c["text"], "design_ref": c.get("design_ref", f"DESIGN.md §4 {pid}")},
            "level_note": c["note"],
            "technique": c["technique"],
        })
    else:
        na.append({"property_id": pid, "reason": json.load(open(os.path.join(here, "tools", "na.json"))).get(pid, "static check not implemented yet; the behavioural statement as a whole quantifies over runtime values that static analysis cannot bound")})
m = {
    "version": 1,
    "setup_cmd": "cd checker && env -u GOWORK GOFLAGS=-mod=mod GOPROXY=off GOSUMDB=off GOTOOLCHAIN=local go build -o ../bin/orascheck .",
    "hooks": {"guard": "verif", "enable": "no hooks are needed: the checker analyses /repo's source and never builds or runs it with instrumentation",
              "baseline_off_cmd": "cd /repo && go test -vet=off -count=1 ./...", "source_commits": [], "add_only": True},
    "engines": [{"name": "orascheck", "path": "checker", "serves_properties": sorted(claimed.keys()),
                 "kind_free_text": "repository-specific static analyser over go/packages + go/ssa (x/tools v0.29.0): path rules (cut-reachability, dominance), error-flow and module-wide error discipline, lockset, effect inventories, loop progress, constant-set and regular-language comparison; never executes repository code"}],
    "checks": checks,
    "not_applicable": na,
    "notes": "All claims are at level 'other': each check decides structural necessary conditions of the property on every path of the analysed code (see DESIGN.md §0, §4); the behavioural remainder that quantifies over runtime values is listed per property in DESIGN.md §6 and in each evidence file. Thorough tier = same rules on 4 build variants (linux/amd64, windows/amd64, darwin/arm64, linux/386) plus self-validation of the checker on scratch copies: source-level mutants of every rule instance must be reported, every committed seeded change (seeded/EXPECT.json) must still be caught and every committed behaviour-preserving patch (refactors*/, tiny*/) must stay silent.",
}
json.dump(m, open(os.path.join(here, "MANIFEST.json"), "w"), indent=1)
print(f"{len(checks)} checks, {len(na)} not_applicable")
