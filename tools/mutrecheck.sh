#!/bin/bash
# Re-evaluates with the current bin/orascheck the mutants that an earlier tools/mutsweep.sh run found test-green but silent
# (no test run is repeated).   tools/mutrecheck.sh [-p PAR] [-i results.jsonl] [-f 'jq filter on a result line, default .status=="silent"'] [-o out.jsonl]
export GOFLAGS="-mod=mod -trimpath" GOPROXY=off GOSUMDB=off GOTOOLCHAIN=local; unset GOWORK
cd "$(dirname "$0")/.." || exit 2
verif=$PWD; par=8; in=$verif/mutsweep/results.jsonl; filt='.status=="silent"'; out=/tmp/mutrecheck.jsonl
while getopts p:i:f:o: o; do case $o in p) par=$OPTARG;; i) in=$OPTARG;; f) filt=$OPTARG;; o) out=$OPTARG;; esac; done
base=$(mktemp -d /tmp/mutre-base-XXXXXX); cp known_findings.txt "$base/"
"${ORASCHECK:-bin/orascheck}" -all -tier quick -verif "$base" 2>&1 | grep -E '^(VIOLATED|UNDECIDED|UNRESOLVED-ANCHOR) ' | sed 's/ at .*//' | sort -u > "$base/baseline.txt"
: > "$out"
one() {
  line=$1; id=$(echo "$line" | jq -r .id)
  d=$(mktemp -d /tmp/mutre-XXXXXX); (cd /repo && tar --exclude=.git -cf - .) | tar -xf - -C "$d"
  "$verif/bin/mutgen" apply -root "$d" -id "$id" || { rm -rf "$d"; return; }
  mkdir -p "$d-verif"; cp "$verif/known_findings.txt" "$d-verif/"
  fired=$("${ORASCHECK:-$verif/bin/orascheck}" -all -tier quick -repo "$d" -verif "$d-verif" 2>&1 | grep -E '^(VIOLATED|UNDECIDED|UNRESOLVED-ANCHOR) ' | sed 's/ at .*//' | sort -u | grep -vxF -f "$base/baseline.txt" | sed -E 's/^[A-Z-]+ C[0-9]+ \[([^]]*)\].*/\1/' | sort -u)
  status=silent; rules="[]"; if [ -n "$fired" ]; then status=caught; rules=$(echo "$fired" | jq -R . | jq -sc .); fi
  rm -rf "$d" "$d-verif"
  echo "$line" | jq -c --arg s "$status" --argjson r "$rules" '. + {status: $s, rules: $r}' >> "$out"
}
export -f one; export verif base out
jq -c "select($filt)" "$in" | tr '\n' '\0' | xargs -0 -P "$par" -I{} bash -c 'one "$1"' _ {}
rm -rf "$base"; jq -r .status "$out" | sort | uniq -c
