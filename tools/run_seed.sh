#!/bin/bash
# Usage: tools/run_seed.sh <seed-dir> [props...]      (seed-dir contains patch.diff and meta.json)
# Applies the seeded change to a scratch copy of /repo (outside /repo and /verif), runs the quick checks of the
# given properties (default: the property named in meta.json) against the copy, prints which obligations fire,
# and removes the copy.  With IN_REPO=1 the patch is applied to /repo itself and undone afterwards.
set -u
export GOFLAGS=-mod=mod GOPROXY=off GOSUMDB=off GOTOOLCHAIN=local; unset GOWORK
seed=$(readlink -f "$1"); shift
verif=$(cd "$(dirname "$0")/.." && pwd)
props="$*"
[ -z "$props" ] && props=$(jq -r .property "$seed/meta.json")
if [ "${IN_REPO:-0}" = 1 ]; then
  repo=/repo
  git -C /repo apply "$seed/patch.diff" || { echo "patch does not apply"; exit 2; }
  trap 'git -C /repo checkout -- .' EXIT
else
  repo=$(mktemp -d /tmp/seedrun-XXXXXX)
  trap 'rm -rf "$repo" "$repo-verif"' EXIT
  (cd /repo && git archive HEAD) | tar -x -C "$repo"
  base=$(jq -r '.base // empty' "$seed/meta.json" 2>/dev/null)   # seed made on top of a committed refactoring
  if [ -n "$base" ]; then (cd "$repo" && patch -p1 -s < "$verif/$base/patch.diff") || { echo "base $base does not apply"; exit 2; }; fi
  (cd "$repo" && patch -p1 -s < "$seed/patch.diff") || { echo "patch does not apply"; exit 2; }
fi
mkdir -p "$repo-verif"; cp "$verif/known_findings.txt" "$repo-verif/" 2>/dev/null
rc=0
for p in $props; do
  out=$("$verif/bin/orascheck" -prop "$p" -tier quick -repo "$repo" -verif "$repo-verif" 2>&1)
  if echo "$out" | grep -q '^VIOLATION'; then
    echo "== $p: CAUGHT"; echo "$out" | grep -E '^(VIOLATED|UNDECIDED|UNRESOLVED)' | cut -c1-400
  else
    echo "== $p: missed"; echo "$out" | tail -1; rc=1
  fi
done
exit $rc
