// mutgen — syntactic mutants of Go source files, used by tools/mutsweep.sh to
// measure which test-green mutants of the property-relevant code the checks
// report.  No dependencies beyond the standard library.
//
//	mutgen list  -root /repo file.go...          one JSON line per mutant
//	mutgen apply -root DIR -id 'file.go|op|n'    rewrites the file in DIR
//
// A mutant is identified by file, operator and the ordinal of the mutation
// point in AST traversal order, so ids are stable as long as the file is.
package main

import (
	"encoding/json"
	"flag"
	"fmt"
	"go/ast"
	"go/parser"
	"go/token"
	"os"
	"path/filepath"
	"sort"
	"strconv"
	"strings"
)

type edit struct {
	start, end int // byte offsets
	repl       string
}

type mutant struct {
	ID    string `json:"id"`
	File  string `json:"file"`
	Line  int    `json:"line"`
	Op    string `json:"op"`
	Func  string `json:"func"`
	Orig  string `json:"orig"`
	Repl  string `json:"repl"`
	edits []edit
}

func main() {
	if len(os.Args) < 2 {
		fmt.Fprintln(os.Stderr, "usage: mutgen list|apply ...")
		os.Exit(2)
	}
	fs := flag.NewFlagSet(os.Args[1], flag.ExitOnError)
	root := fs.String("root", "/repo", "tree root")
	id := fs.String("id", "", "mutant id (apply)")
	fs.Parse(os.Args[2:])
	switch os.Args[1] {
	case "list":
		enc := json.NewEncoder(os.Stdout)
		for _, f := range fs.Args() {
			for _, m := range mutantsOf(*root, f) {
				enc.Encode(m)
			}
		}
	case "apply":
		parts := strings.Split(*id, "|")
		if len(parts) != 3 {
			fmt.Fprintln(os.Stderr, "bad id")
			os.Exit(2)
		}
		for _, m := range mutantsOf(*root, parts[0]) {
			if m.ID == *id {
				path := filepath.Join(*root, m.File)
				src, _ := os.ReadFile(path)
				es := m.edits
				sort.Slice(es, func(i, j int) bool { return es[i].start > es[j].start })
				for _, e := range es {
					src = append(src[:e.start:e.start], append([]byte(e.repl), src[e.end:]...)...)
				}
				if err := os.WriteFile(path, src, 0o644); err != nil {
					fmt.Fprintln(os.Stderr, err)
					os.Exit(1)
				}
				return
			}
		}
		fmt.Fprintln(os.Stderr, "no such mutant:", *id)
		os.Exit(1)
	}
}

func mutantsOf(root, file string) []*mutant {
	path := filepath.Join(root, file)
	src, err := os.ReadFile(path)
	if err != nil {
		fmt.Fprintln(os.Stderr, err)
		return nil
	}
	fset := token.NewFileSet()
	f, err := parser.ParseFile(fset, path, src, parser.ParseComments)
	if err != nil {
		fmt.Fprintln(os.Stderr, err)
		return nil
	}
	off := func(p token.Pos) int { return fset.Position(p).Offset }
	text := func(n ast.Node) string { return string(src[off(n.Pos()):off(n.End())]) }
	count := map[string]int{}
	var out []*mutant
	add := func(op, fn string, at ast.Node, repl string, es ...edit) {
		count[op]++
		o := text(at)
		if len(o) > 120 {
			o = o[:120] + "…"
		}
		r := repl
		if len(r) > 120 {
			r = r[:120] + "…"
		}
		out = append(out, &mutant{ID: file + "|" + op + "|" + strconv.Itoa(count[op]), File: file, Line: fset.Position(at.Pos()).Line,
			Op: op, Func: fn, Orig: o, Repl: r, edits: es})
	}
	repl := func(n ast.Node, s string) edit { return edit{off(n.Pos()), off(n.End()), s} }

	for _, d := range f.Decls {
		fd, ok := d.(*ast.FuncDecl)
		if !ok || fd.Body == nil {
			continue
		}
		fn := fd.Name.Name
		if fd.Recv != nil && len(fd.Recv.List) > 0 {
			fn = strings.TrimPrefix(text(fd.Recv.List[0].Type), "*") + "." + fn
		}
		// result shapes of the enclosing function literal / declaration
		type frame struct {
			results *ast.FieldList
		}
		var stack []frame
		stack = append(stack, frame{fd.Type.Results})
		lastIsError := func(fl *ast.FieldList) bool {
			if fl == nil || len(fl.List) == 0 {
				return false
			}
			id, ok := fl.List[len(fl.List)-1].Type.(*ast.Ident)
			return ok && id.Name == "error"
		}
		nres := func(fl *ast.FieldList) int {
			if fl == nil {
				return 0
			}
			n := 0
			for _, f := range fl.List {
				if len(f.Names) == 0 {
					n++
				} else {
					n += len(f.Names)
				}
			}
			return n
		}
		// lock pairs per function: receiver text -> nodes
		locks := map[string][]*ast.SelectorExpr{}
		var walk func(n ast.Node, inLoop bool)
		walk = func(n ast.Node, inLoop bool) {
			if n == nil {
				return
			}
			switch x := n.(type) {
			case *ast.FuncLit:
				stack = append(stack, frame{x.Type.Results})
				walk(x.Body, false)
				stack = stack[:len(stack)-1]
				return
			case *ast.IfStmt:
				add("neg-cond", fn, x.Cond, "!("+text(x.Cond)+")", repl(x.Cond, "!("+text(x.Cond)+")"))
				if be, ok := x.Cond.(*ast.BinaryExpr); ok && be.Op == token.NEQ {
					if id, ok := be.Y.(*ast.Ident); ok && id.Name == "nil" {
						if l, ok := be.X.(*ast.Ident); ok && strings.Contains(strings.ToLower(l.Name), "err") {
							add("err-swallow", fn, x.Cond, "false && "+text(x.Cond), repl(x.Cond, "false && "+text(x.Cond)))
						}
					}
				}
			case *ast.ReturnStmt:
				cur := stack[len(stack)-1]
				if lastIsError(cur.results) && len(x.Results) == nres(cur.results) && len(x.Results) > 0 {
					last := x.Results[len(x.Results)-1]
					if id, ok := last.(*ast.Ident); !ok || id.Name != "nil" {
						add("ret-nil", fn, x, "…, nil", repl(last, "nil"))
					}
				}
			case *ast.ExprStmt:
				if _, ok := x.X.(*ast.CallExpr); ok {
					add("del-call", fn, x, "", repl(x, "{}"))
				}
			case *ast.DeferStmt:
				add("del-defer", fn, x, "", repl(x, "{}"))
				add("undefer", fn, x, text(x.Call), repl(x, text(x.Call)))
			case *ast.GoStmt:
				add("ungo", fn, x, text(x.Call), repl(x, text(x.Call)))
			case *ast.BranchStmt:
				if x.Tok == token.CONTINUE && x.Label == nil {
					add("cont-break", fn, x, "break", repl(x, "break"))
					cur := stack[len(stack)-1]
					switch {
					case nres(cur.results) == 0:
						add("cont-ret", fn, x, "return", repl(x, "return"))
					case nres(cur.results) == 1 && lastIsError(cur.results):
						add("cont-ret", fn, x, "return nil", repl(x, "return nil"))
					}
				}
				if x.Tok == token.BREAK && x.Label == nil && inLoop {
					add("break-cont", fn, x, "continue", repl(x, "continue"))
				}
			case *ast.BinaryExpr:
				swap := map[token.Token]string{token.LAND: "||", token.LOR: "&&", token.EQL: "!=", token.NEQ: "==",
					token.LSS: "<=", token.GTR: ">=", token.LEQ: "<", token.GEQ: ">"}
				if s, ok := swap[x.Op]; ok {
					// skip nil comparisons for EQL/NEQ: covered by neg-cond / err-swallow
					skip := false
					if x.Op == token.EQL || x.Op == token.NEQ {
						if id, ok := x.Y.(*ast.Ident); ok && id.Name == "nil" {
							skip = true
						}
					}
					if !skip {
						opStart := off(x.OpPos)
						add("bin-op", fn, x, text(x.X)+" "+s+" "+text(x.Y), edit{opStart, opStart + len(x.Op.String()), s})
					}
				}
			case *ast.CallExpr:
				if se, ok := x.Fun.(*ast.SelectorExpr); ok && len(x.Args) == 0 {
					switch se.Sel.Name {
					case "Lock", "Unlock":
						locks[text(se.X)] = append(locks[text(se.X)], se)
					}
				}
				if len(x.Args) >= 2 {
					for i := 0; i+1 < len(x.Args); i++ {
						a, aok := x.Args[i].(*ast.Ident)
						b, bok := x.Args[i+1].(*ast.Ident)
						if aok && bok && a.Name != b.Name && a.Name != "ctx" && b.Name != "nil" && a.Name != "nil" {
							add("arg-swap", fn, x, "swap "+a.Name+","+b.Name, repl(x.Args[i], b.Name), repl(x.Args[i+1], a.Name))
						}
					}
				}
			}
			loop := inLoop
			switch n.(type) {
			case *ast.ForStmt, *ast.RangeStmt:
				loop = true
			case *ast.SwitchStmt, *ast.TypeSwitchStmt, *ast.SelectStmt:
				loop = false // an unlabeled break here leaves the switch, not the loop
			}
			ast.Inspect(n, func(c ast.Node) bool {
				if c == n {
					return true
				}
				if c == nil {
					return false
				}
				walk(c, loop)
				return false
			})
		}
		walk(fd.Body, false)
		var recvs []string
		for r := range locks {
			recvs = append(recvs, r)
		}
		sort.Strings(recvs)
		for _, r := range recvs {
			var es []edit
			for _, se := range locks[r] {
				es = append(es, repl(se.Sel, "R"+se.Sel.Name))
			}
			add("lock-mode", fn, locks[r][0], r+".RLock/RUnlock", es...)
		}
	}
	return out
}
