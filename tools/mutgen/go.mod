module mutgen

go 1.23
