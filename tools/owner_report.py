#!/usr/bin/env python3
"""Groups the alarms of refactors/RESULTS.md by rule owner (the sub-agent that wrote the property file)."""
import re, collections, sys
owner = {}
for o, ps in {"A":["C01","C03","C04"],"B":["C05","C06","C07"],"C":["C08","C09","C10"],"D":["C11","C12","C18"],
              "E":["C13","C15","C17"],"F":["C14","C16"],"G":["C19","C20"],"H":["C02"]}.items():
    for p in ps: owner[p]=o
rep = collections.defaultdict(lambda: collections.defaultdict(set))
for line in open(sys.argv[1] if len(sys.argv)>1 else "refactors/RESULTS.md"):
    cols=[c.strip() for c in line.split("|")]
    if len(cols)<6 or cols[2]!="caught": continue
    for rule in (cols[3]+" "+cols[4]).split():
        if rule=="-": continue
        rep[owner[rule.split(".")[0]]][cols[1]].add(rule)
for o in sorted(rep):
    print(f"== impl-{o}")
    for r in sorted(rep[o]): print(f"  refactors/{r}: "+" ".join(sorted(rep[o][r])))
