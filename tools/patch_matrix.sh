#!/bin/bash
# DIR=seeded (default) or DIR=refactors. Runs every patch under $DIR/ against ALL implemented checks (one shared load per seed, scratch copy of /repo)
# and writes $DIR/RESULTS.md: which rule of which property catches which seed.
export GOFLAGS=-mod=mod GOPROXY=off GOSUMDB=off GOTOOLCHAIN=local; unset GOWORK
cd "$(dirname "$0")/.." || exit 2
DIR=${DIR:-seeded}; export DIR
verif=$PWD
# baseline: keys firing on the unchanged tree (known findings etc.)
base=$(mktemp -d /tmp/seedmx-base-XXXXXX)
cp known_findings.txt "$base/" 2>/dev/null
bin/orascheck -all -tier quick -verif "$base" 2>&1 | grep -E '^(VIOLATED|UNDECIDED|UNRESOLVED-ANCHOR) ' | sed 's/ at .*//' | sort -u > "$base/baseline.txt"
one() {
  s=$1; name=$(basename $s)
  repo=$(mktemp -d /tmp/seedmx-XXXXXX)
  (cd /repo && git archive HEAD) | tar -x -C "$repo"
  # a seed made on top of a committed behaviour-preserving refactoring names it in meta.json ("base": "refactors4/C07-q"): apply that first
  b=$(jq -r '.base // empty' "$verif/$s/meta.json" 2>/dev/null)
  if [ -n "$b" ] && ! (cd "$repo" && patch -p1 -s < "$verif/$b/patch.diff" >/dev/null 2>&1); then echo "| $name | (base $b does not apply to current /repo HEAD) | |"; rm -rf "$repo"; return; fi
  if ! (cd "$repo" && patch -p1 -s < "$verif/$s/patch.diff" >/dev/null 2>&1); then echo "| $name | (patch does not apply to current /repo HEAD) | |"; rm -rf "$repo"; return; fi
  mkdir -p "$repo-verif"; cp "$verif/known_findings.txt" "$repo-verif/" 2>/dev/null
  out=$("$verif/bin/orascheck" -all -tier quick -repo "$repo" -verif "$repo-verif" 2>&1 | grep -E '^(VIOLATED|UNDECIDED|UNRESOLVED-ANCHOR) ' | sed 's/ at .*//' | sort -u | grep -vxF -f "$base/baseline.txt")
  prop=$(jq -r .property "$verif/$s/meta.json")
  own=$(echo "$out" | awk -v p="$prop" '$2==p' | sed -E 's/^[A-Z-]+ C[0-9]+ \[([^]]*)\].*/\1/' | sort -u | paste -sd' ' )
  other=$(echo "$out" | awk -v p="$prop" 'NF && $2!=p' | sed -E 's/^[A-Z-]+ (C[0-9]+) \[([^]]*)\].*/\2/' | sort -u | paste -sd' ')
  verdict="caught"; [ -z "$own$other" ] && verdict="**missed**"
  echo "| $name | $verdict | ${own:--} | ${other:--} | $(jq -r .summary "$verif/$s/meta.json" | cut -c1-160 | tr '|' '/') |"
  rm -rf "$repo" "$repo-verif"
}
export -f one; export verif base
{
echo "| seed | verdict | rules of its own property that fire | rules of other properties that fire | change |"
echo "|---|---|---|---|---|"
ls -d $DIR/*/ | sed 's#/$##' | xargs -P ${PAR:-4} -I{} bash -c 'one {}' | sort
} > $DIR/RESULTS.md
rm -rf "$base"
grep -c '| caught |' $DIR/RESULTS.md; grep -c 'missed' $DIR/RESULTS.md
