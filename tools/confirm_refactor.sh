#!/bin/bash
# Usage: tools/confirm_refactor.sh <refactor-dir>   — applies the patch in a scratch git worktree of /repo (removed afterwards),
# builds and runs the repository's own suite; prints SUITE-GREEN or REJECTED (a refactor that breaks the suite is not behaviour-preserving).
set -u
export GOFLAGS=-mod=mod GOPROXY=off GOSUMDB=off GOTOOLCHAIN=local; unset GOWORK
d=$(readlink -f "$1"); log="$d/confirm.log"; : > "$log"
wt=$(mktemp -d /tmp/confirmr-XXXXXX); rmdir "$wt"
git -C /repo worktree add -q --detach "$wt" HEAD || exit 2
trap 'git -C /repo worktree remove --force "$wt" 2>/dev/null; rm -rf "$wt"' EXIT
(cd "$wt" && git apply "$d/patch.diff") || { echo "REJECTED: patch does not apply"; exit 1; }
(cd "$wt" && go build ./...) >> "$log" 2>&1 || { echo "REJECTED: does not build"; exit 1; }
out=$(cd "$wt" && timeout 1500 go test -vet=off -count=1 ./... 2>&1); echo "$out" | grep -v '^ok\|no test files' >> "$log"
fails=$(echo "$out" | grep -- '^--- FAIL' | grep -v 'TestStore_Dir_OverwriteSymlink_RemovalFailed' | head -5)
pkgfail=$(echo "$out" | grep -P '^FAIL\t' | grep -v 'content/file' | head -5)
if [ -n "$fails" -o -n "$pkgfail" ]; then echo "REJECTED: suite fails: $fails $pkgfail"; exit 1; fi
echo "SUITE-GREEN"; echo "SUITE-GREEN" >> "$log"
