#!/bin/bash
# Runs setup_cmd and every quick_cmd of MANIFEST.json on /repo, validates MANIFEST and every evidence file
# against the schemas, and prints a one-line verdict per property.
cd "$(dirname "$0")/.." || exit 2
tier=${1:-quick}
export ORASCHECK_STRICT=1   # self-validation failures (CHECKER-WEAK / CHECKER-NOISY) are fatal here
bash -c "$(jq -r .setup_cmd MANIFEST.json)" || { echo "setup failed"; exit 2; }
rc=0
for id in $(jq -r '.checks[].property_id' MANIFEST.json); do
  cmd=$(jq -r --arg id "$id" --arg t "${tier}_cmd" '.checks[] | select(.property_id==$id) | .[$t]' MANIFEST.json)
  rm -f evidence/$id.json
  start=$(date +%s)
  out=$(bash -c "$cmd" 2>&1); code=$?
  echo "$id exit=$code $(($(date +%s)-start))s  $(echo "$out" | tail -1)"
  [ $code -ne 0 ] && { rc=1; echo "$out" | grep -E '^(VIOLATED|UNDECIDED|UNRESOLVED|VIOLATION|CHECKER-WEAK|CHECKER-NOISY)' | cut -c1-300; }
  echo "$out" | grep '^KNOWN-FINDING' | cut -c1-200
done
python3-vt - <<'PY' || rc=1
import json, jsonschema, glob, sys
m=json.load(open('MANIFEST.json')); jsonschema.validate(m, json.load(open('/root/.vp/MANIFEST.schema.json')))
es=json.load(open('/root/.vp/EVIDENCE.schema.json'))
bad=0
for c in m['checks']:
    try:
        jsonschema.validate(json.load(open(c['evidence_file'])), es)
    except Exception as e:
        print('EVIDENCE INVALID', c['property_id'], str(e)[:200]); bad=1
ids={json.loads(l)['id'] for l in open('properties.jsonl')}
cl={c['property_id'] for c in m['checks']}; na={n['property_id'] for n in m.get('not_applicable',[])}
if cl|na!=ids or cl&na: print('MANIFEST coverage mismatch', ids-cl-na, cl&na); bad=1
print('schemas ok' if not bad else 'schema problems'); sys.exit(bad)
PY
exit $rc
