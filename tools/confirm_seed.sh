#!/bin/bash
# Usage: tools/confirm_seed.sh <seed-dir>
# Confirms a seeded change in a scratch git worktree of /repo (removed afterwards):
#   1. demo passes on the unchanged tree, 2. patched tree builds, 3. demo fails on the patched tree,
#   4. the repository's own test suite still passes on the patched tree (known baseline failure excepted).
# Prints CONFIRMED or REJECTED with the reason and writes <seed-dir>/confirm.log.
set -u
export GOFLAGS=-mod=mod GOPROXY=off GOSUMDB=off GOTOOLCHAIN=local; unset GOWORK
seed=$(readlink -f "$1"); verifdir=$(cd "$(dirname "$0")/.." && pwd)
log="$seed/confirm.log"; : > "$log"
wt=$(mktemp -d /tmp/confirm-XXXXXX); rmdir "$wt"
git -C /repo worktree add -q --detach "$wt" HEAD || exit 2
cleanup() { git -C /repo worktree remove --force "$wt" 2>/dev/null; rm -rf "$wt"; }
trap cleanup EXIT
base=$(jq -r '.base // empty' "$seed/meta.json")
if [ -n "$base" ]; then (cd "$wt" && git apply "$verifdir/$base/patch.diff") || { echo "REJECTED: base $base does not apply"; exit 1; }; fi
pkgdir=$(jq -r .demo_package_dir "$seed/meta.json" | sed "s#^/tmp/seed-C[0-9]*/##; s#^/tmp/seed-C[0-9]*\$#.#; s#^\./##")
[ -z "$pkgdir" -o "$pkgdir" = null ] && pkgdir=.
demo="$wt/$pkgdir/zz_seed_demo_test.go"
cp "$seed/demo_test.go" "$demo" || { echo "REJECTED: cannot place demo in $pkgdir"; exit 1; }
run_demo() { (cd "$wt/$pkgdir" && timeout 600 go test -vet=off -count=1 -run "${DEMO_RUN:-.}" . 2>&1); }
# which tests does the demo define?
tests=$(grep -ho '^func \(Test[A-Za-z0-9_]*\)' "$seed/demo_test.go" | sed 's/func //' | paste -sd'|')
DEMO_RUN="^(${tests})\$"
echo "== demo on unchanged tree ($pkgdir, $DEMO_RUN)" >> "$log"
out=$(run_demo); rc=$?; echo "$out" | tail -15 >> "$log"
[ $rc -eq 0 ] || { echo "REJECTED: demo fails on the unchanged tree"; exit 1; }
(cd "$wt" && git apply "$seed/patch.diff") || { echo "REJECTED: patch does not apply"; exit 1; }
echo "== build patched" >> "$log"
(cd "$wt" && go build ./... && go vet -vettool=/bin/true ./... >/dev/null 2>&1; go test -vet=off -count=1 -run '^$' ./... >> "$log" 2>&1) || { echo "REJECTED: patched tree does not build"; exit 1; }
echo "== demo on patched tree" >> "$log"
out=$(run_demo); rc=$?; echo "$out" | tail -25 >> "$log"
[ $rc -ne 0 ] || { echo "REJECTED: demo passes on the patched tree"; exit 1; }
rm -f "$demo"
echo "== suite on patched tree" >> "$log"
out=$(cd "$wt" && timeout 1500 go test -vet=off -count=1 ./... 2>&1); echo "$out" | grep -v '^ok\|no test files' >> "$log"
fails=$(echo "$out" | grep -- '^--- FAIL' | grep -v 'TestStore_Dir_OverwriteSymlink_RemovalFailed' | head -5)
pkgfail=$(echo "$out" | grep -P '^FAIL\t' | grep -v 'content/file' | head -5)
if [ -n "$fails" -o -n "$pkgfail" ]; then echo "REJECTED: existing suite fails with the change: $fails $pkgfail"; exit 1; fi
# content/file may FAIL only because of the known baseline failure
if echo "$out" | grep -q '^FAIL.*content/file'; then
  n=$(echo "$out" | grep -c -- '^--- FAIL')
  [ "$n" -le 1 ] || { echo "REJECTED: extra failures in content/file"; exit 1; }
fi
echo "CONFIRMED"; echo "CONFIRMED" >> "$log"
