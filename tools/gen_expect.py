#!/usr/bin/env python3
"""Writes seeded/EXPECT.json from seeded/RESULTS.md (output of tools/patch_matrix.sh): for every seeded change, which rules of which
property fire on it.  The thorough tier of each check re-validates these expectations (checker/corpus.go)."""
import json, collections
exp = {}
for line in open("seeded/RESULTS.md"):
    cols = [c.strip() for c in line.split("|")]
    if len(cols) < 6 or cols[2] != "caught":
        continue
    per = collections.defaultdict(list)
    for rule in (cols[3] + " " + cols[4]).split():
        if rule != "-":
            per[rule.split(".")[0]].append(rule)
    exp[cols[1]] = {p: sorted(r) for p, r in sorted(per.items())}
json.dump(exp, open("seeded/EXPECT.json", "w"), indent=1, sort_keys=True)
print(len(exp), "seeds with expectations")
