#!/bin/bash
# Mutation sweep: how many syntactic mutants of the property-relevant files that the repository's own tests do NOT kill are reported by the checks?
#   tools/mutsweep.sh [-n MAX] [-p PAR] [-o OUTDIR] file.go...      (files relative to /repo; default: tools/mutsweep.files)
# For every mutant (tools/mutgen): scratch copy of /repo's working tree under /tmp (removed immediately) -> apply -> go build ./... ->
# go test of the mutated package (plus the root package for internal/* helpers) -> if still green: bin/orascheck -all -tier quick on the copy.
# Writes OUTDIR/results.jsonl (one line per mutant: id, status ∈ nocompile|killed|caught|silent, rules) and prints a summary.
# Nothing of the repository is executed by the checker itself; the test runs here only classify mutants for the measurement.
export GOFLAGS="-mod=mod -trimpath" GOPROXY=off GOSUMDB=off GOTOOLCHAIN=local; unset GOWORK
cd "$(dirname "$0")/.." || exit 2
verif=$PWD
max=0; par=8; out=$verif/mutsweep
while getopts n:p:o: o; do case $o in n) max=$OPTARG;; p) par=$OPTARG;; o) out=$OPTARG;; esac; done; shift $((OPTIND-1))
files="$*"; [ -z "$files" ] && files=$(grep -v '^#' tools/mutsweep.files)
mkdir -p "$out"
[ -x bin/mutgen ] || (cd tools/mutgen && go build -o ../../bin/mutgen .) || exit 2
bin/mutgen list -root /repo $files > "$out/mutants.jsonl"
total=$(wc -l < "$out/mutants.jsonl")
# deterministic sample: every k-th mutant
if [ "$max" -gt 0 ] && [ "$total" -gt "$max" ]; then k=$(( (total + max - 1) / max )); awk -v k=$k 'NR%k==1' "$out/mutants.jsonl" > "$out/sample.jsonl"; else cp "$out/mutants.jsonl" "$out/sample.jsonl"; fi
echo "mutants: $total, evaluating $(wc -l < "$out/sample.jsonl")"
base=$(mktemp -d /tmp/mutsweep-base-XXXXXX); cp known_findings.txt "$base/"
"${ORASCHECK:-bin/orascheck}" -all -tier quick -verif "$base" 2>&1 | grep -E '^(VIOLATED|UNDECIDED|UNRESOLVED-ANCHOR) ' | sed 's/ at .*//' | sort -u > "$base/baseline.txt"
done_ids="$out/done.ids"; touch "$out/results.jsonl"; jq -r .id "$out/results.jsonl" | sort -u > "$done_ids"
one() {
  line=$1; id=$(echo "$line" | jq -r .id); file=$(echo "$line" | jq -r .file)
  grep -qxF "$id" "$done_ids" && return
  d=$(mktemp -d /tmp/mutsweep-XXXXXX)
  (cd /repo && tar --exclude=.git -cf - .) | tar -xf - -C "$d"
  "$verif/bin/mutgen" apply -root "$d" -id "$id" || { rm -rf "$d"; return; }
  status=silent; rules="[]"
  if ! (cd "$d" && go build ./... >/dev/null 2>&1); then status=nocompile
  else
    pkg=./$(dirname "$file"); pkgs="$pkg"
    case "$file" in internal/*) pkgs="$pkg . ./content/oci ./content/memory";; esac
    case "$file" in registry/remote/internal/*|registry/remote/credentials/internal/*) pkgs="$pkg ./$(dirname $(dirname $(dirname "$file")))";; esac
    t=$(cd "$d" && timeout 300 go test -vet=off -count=1 -timeout 240s $pkgs 2>&1); rc=$?
    fails=$(echo "$t" | grep -- '^--- FAIL' | grep -vc 'TestStore_Dir_OverwriteSymlink_RemovalFailed')
    other=$(echo "$t" | grep -cE '^panic:|test timed out|\[build failed\]|\[setup failed\]|^fatal error:')
    pkgfail=$(echo "$t" | grep -P '^FAIL\t' | grep -vcP 'oras-go/v2/content/file\t')
    if [ $rc -eq 124 ] || [ "$fails" -gt 0 ] || [ "$other" -gt 0 ] || [ "$pkgfail" -gt 0 ]; then status=killed
    else
      mkdir -p "$d-verif"; cp "$verif/known_findings.txt" "$d-verif/"
      fired=$("${ORASCHECK:-$verif/bin/orascheck}" -all -tier quick -repo "$d" -verif "$d-verif" 2>&1 | grep -E '^(VIOLATED|UNDECIDED|UNRESOLVED-ANCHOR) ' | sed 's/ at .*//' | sort -u | grep -vxF -f "$base/baseline.txt" | sed -E 's/^[A-Z-]+ C[0-9]+ \[([^]]*)\].*/\1/' | sort -u)
      if [ -n "$fired" ]; then status=caught; rules=$(echo "$fired" | jq -R . | jq -sc .); fi
      rm -rf "$d-verif"
    fi
  fi
  rm -rf "$d"
  echo "$line" | jq -c --arg s "$status" --argjson r "$rules" '. + {status: $s, rules: $r}' >> "$out/results.jsonl"
}
export -f one; export verif base done_ids out
cat "$out/sample.jsonl" | tr '\n' '\0' | xargs -0 -P "$par" -I{} bash -c 'one "$1"' _ {}
rm -rf "$base"
jq -r .status "$out/results.jsonl" | sort | uniq -c
